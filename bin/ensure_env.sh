#!/bin/bash
# Build (idempotently) the overlay venv the checks run in.  Offline only.
# /verif/.venv = venv of /venv's python + .pth pointing at /venv's site-packages
# + z3-solver (and cvc5) from the offline wheelhouse.  dagrt itself is NOT
# installed: the checks put $VERIF_REPO (default /repo) first on sys.path.
set -e
VERIF="$(cd "$(dirname "$0")/.." && pwd)"
VENV="$VERIF/.venv"
STAMP="$VENV/.ok"
[ -f "$STAMP" ] && exit 0
exec 9>"$VERIF/.venv.lock"
flock 9
[ -f "$STAMP" ] && exit 0
rm -rf "$VENV"
/venv/bin/python -m venv "$VENV" >/dev/null
SP="$VENV/lib/python3.12/site-packages"
printf '/venv/lib/python3.12/site-packages\n' > "$SP/_overlay.pth"
PIP_NO_INDEX=1 "$VENV/bin/pip" install -q --no-index --find-links /opt/veriftools/wheels z3-solver >/dev/null
PIP_NO_INDEX=1 "$VENV/bin/pip" install -q --no-index --find-links /opt/veriftools/wheels cvc5 >/dev/null 2>&1 || true
"$VENV/bin/python" -c "import z3, pymbolic, pytools, numpy" 
touch "$STAMP"
