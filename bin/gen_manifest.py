#!/usr/bin/env python3
"""Regenerates /verif/MANIFEST.json from the table below (kept in one place so
that the manifest is always valid and consistent with the checks present)."""
import json
import os

VERIF = os.path.dirname(os.path.dirname(os.path.abspath(__file__)))

# id -> (level, technique, level text, level note, design ref)
CHECKS = {
    "C06": ("other",
            "bounded enumeration of tree shapes; per tree one z3 validity query over all flag valuations (guarded-trace equivalence of real simplify_ast output)",
            "Bounded symbolic checking: for every tree of the enumerated family the real simplify_ast is run and z3 proves input and output guarded traces equal for ALL flag valuations; exceptions are violations. Bounds: all trees <=5 nodes (quick) / <=6 nodes (thorough) over 7 condition choices, plus seeded random larger trees; each tree also with one repeated leaf statement (z3 proves the number of leaves run equal for all valuations). Not a proof: shapes outside the family are not covered.",
            "Trusted: z3, the 60-line guarded-trace walker (reference semantics of Block/IfThen/IfThenElse/Null), leaves do not assign flags.",
            "DESIGN.md section 5 C06"),
}

CHECKS.update({
    "C17": ("other",
            "bounded enumeration of template/target pairs; per returned substitution one z3 validity query (value(template[S]) == value(target)) with uninterpreted function symbols",
            "Bounded symbolic checking of the real match(): every returned substitution is proved (z3, all valuations, all function interpretations) to make the template equal to the target, to bind only declared free variables and to agree with pre_match; any exception other than the documented ValueError is a violation. Bounds: all depth<=1 pairs over a small alphabet x free subsets plus seeded random pairs (depth<=3) over sums, products, calls with keywords.",
            "Trusted: z3, RefExpr (vf/refexpr.py). Family restricted to sums/products/calls as the property states; z3 'unknown' on non-linear products is counted undecided.",
            "DESIGN.md section 5 C17"),
    "C18": ("other",
            "bounded enumeration of expressions x free-variable subsets; per case one z3 validity query (value equality after substituting hoisted assignments back) plus structural checks",
            "Bounded symbolic checking of the real collapse_constants(): z3 proves for all valuations that the rewritten expression with hoisted assignments substituted back equals the original; hoisted right-hand sides mention no free variable; each new variable assigned once. Bounds: exhaustive small family + seeded random expressions of depth<=4 (thorough 5).",
            "Trusted: z3, RefExpr. `/`, `**`, subscripts, functions uninterpreted; + and * exact (IEEE re-association outside the claim).",
            "DESIGN.md section 5 C18"),
    "C19": ("translation_validation",
            "bounded enumeration of expressions; real str() then real parse(); string/variable equality concrete, value equality by z3 validity query; failures minimised and matched structurally against known findings",
            "Round-trip validation: for each expression of the family the printed form is parsed back by the real parser; printed forms must be identical, variable sets equal, and z3 proves value equality whenever the re-read tree differs structurally. Three pymbolic-rooted printer defects are listed as known findings with structural matchers on minimised witnesses.",
            "Trusted: z3, RefExpr, the delta-debugging minimiser. Min/Max nodes are outside the stated language and excluded.",
            "DESIGN.md section 5 C19"),
})

CHECKS.update({
    "C14": ("other",
            "symbolic execution (symx/z3) of the real unify with symbolic kind fields over all operand-class singles/pairs/triples; real SymbolKindFinder under symbolic presentation order (rank-sorted by forking), tables compared across all order paths",
            "Bounded symbolic checking: unify laws (idempotent, commutative, associative where defined) are decided by z3 on every path for all values of is_real_valued and all user-type identifiers, for every combination of operand classes (exhaustive: 6+36+216). Inference: for each program of a curated + seeded random family every permutation of statement lists and phase list is a path; the resulting table must be identical on all of them.",
            "Trusted: z3, symx proxies. 'Defined' = returns without raising. Order-dependence on ill-typed programs is a listed known finding (C14-K1).",
            "DESIGN.md section 5 C14"),
})

CHECKS.update({
    "C10": ("exploration",
            "bounded-exhaustive exploration: dependency edges / switch targets / flag writers are explorer choice bits realised by solver forking; real verify_code vs independent oracle, accepted methods run through interpreter, lowering and both generators",
            "Exploration (said plainly): every branch of verify_code depends on graph shape, so after the shape is fixed no data dimension is left for the solver; the solver only realises the choice bits. All edge relations on 3 statements incl. self-loops, dangling and cross-phase edges (quick), 4 statements (thorough), x statement presentation orders, switch targets, flag writers, plus seeded random graphs on 5..8 statements.",
            "Trusted: the independent well-formedness oracle in vf/checks/c10.py; 10 s alarm as the 'never hangs' budget.",
            "DESIGN.md section 5 C10"),
})

CHECKS.update({
    "C04": ("other",
            "symbolic execution (symx/z3) of the real ExecutionController via the real run_single_step: guard outcomes, set iteration orders (ranked containers) and dynamic request sets are solver variables; DAG shapes enumerated",
            "Bounded symbolic checking: for every DAG on N<=4 statements (thorough 5) the real controller is explored over ALL guard valuations, ALL distinguishable iteration orders of the dependency and sink sets and ALL request sets (<=2 requests per step); per path the callback log must show every statement visited once, after its dependencies, exec iff guard, requested statements (with unvisited dependencies) before anything pending. A second harness runs hand-written Nop/Assign/YieldState statements through the unmodified evaluate_condition/exec_* with symbolic flag values.",
            "Trusted: z3, symx, the log oracle in vf/checks/c04.py. Iteration orders = those expressible as one global rank. Steps cut short by failures are covered by C01/C11.",
            "DESIGN.md section 5 C04"),
})

CHECKS.update({
    "C08": ("other",
            "symbolic execution (symx/z3) of the real evaluate_condition/exec_* on a fully symbolic recording store; statement shapes enumerated; per path set-inclusion of recorded accesses in the declared sets",
            "Bounded symbolic checking: each statement shape is executed by the real interpreter methods with every store value symbolic, so all conditional-expression branches, short-circuits, index ranges and loop trip counts are explored as solver-decided forks; on every path the recorded reads/writes must be inside get_read_variables()/get_written_variables() (loop counters aside) and map_expressions(identity) must not change the sets.",
            "Trusted: z3, symx proxies, the recording dict. Bounds: curated + seeded random statements, expression depth<=3, <=2 loops with bounds 0..2, arrays of length 3, <=300 paths per statement.",
            "DESIGN.md section 5 C08"),
})

CHECKS.update({
    "C01": ("translation_validation",
            "product-program symbolic execution (symx/z3): real NumpyInterpreter, real generated Python class and a reference executor run in one path on a shared symbolic initial state; per event/persistent variable a z3 validity query; programs enumerated (curated + bounded-exhaustive small + seeded random)",
            "Three-way translation validation per program: interpreter == generated Python == program order, for all integer initial states, all results of user functions/built-ins (uninterpreted), bounded by K=3 steps (thorough 4) and 24 events, run under max_steps and under a symbolic end time. Programs are enumerated, data is solver-decided.",
            "Trusted: z3, symx proxies, RefProgram (vf/refprog.py, works on the JSON DSL, independent of dagrt/pymbolic). Outside: int-vs-float result types, division by zero, IEEE rounding, programs outside the validity predicate; explorations that hit the path/CPU budget are counted incomplete; products of symbolic integers above degree 2 are uninterpreted (AC-normal form): equalities proved there are sound, mismatches found there are reported only if the concrete replay confirms them (else undecided).",
            "DESIGN.md section 5 C01"),
})

CHECKS.update({
    "C02": ("other",
            "pairwise commutation: for every pair of statements not ordered by the recorded edges the real evaluate_condition/exec_* run as i;j and j;i on an arbitrary symbolic store and z3 decides equality of stores and event logs (transposition argument covers all linear extensions); failures re-run from the symbolic initial state and replayed concretely",
            "Bounded symbolic checking of the real CodeBuilder output: every incomparable statement pair of every phase of the PG programs must commute for ALL store contents (stage 1, sound over-approximation); by the adjacent-transposition argument this makes every admissible schedule equal to program order. Stage 2 turns a stage-1 failure into a concrete counterexample from the initial state or leaves it undecided. Graph facts (visible statements totally ordered and after earlier state updates; fresh names) are checked concretely.",
            "Trusted: z3, symx proxies, the transposition argument. User functions pure; indices in range; loop-bound/index variables 0..2 on the arbitrary store.",
            "DESIGN.md section 5 C02"),
})

CHECKS.update({
    "C11": ("fault_enumeration",
            "symbolic crash point: the failing call index k is a z3 integer, `count == k` forks inside the stub, so every reachable call index is explored; real interpreter and real generated class; per failing path z3 validity queries for state and resumption clauses",
            "Fault enumeration with the crash point as a solver variable: a user function raises at its k-th call (k in 0..7 symbolic) in runs of K=2 steps (thorough 3) followed by m=1 (2) further steps, on curated and seeded random programs with calls in right-hand sides, guards, scalar loops, multi-assignee calls and several phases, plus variants with call-computed flags inlined into the statement guards. Checked per failing path: the injected exception reaches the caller (same object); only persistent names left; every persistent variable is its pre-step value or a value the written program assigns in that step; variables whose writers all depend on the failed call unchanged; the resumed stepper behaves like a fresh stepper in that state and phase.",
            "Trusted: z3, symx, RefProgram. One function per call site; no arrays; user functions otherwise pure.",
            "DESIGN.md section 5 C11"),
})

CHECKS.update({
    "C16": ("translation_validation",
            "real fuse_two_dags on enumerated program pairs; structural clauses concrete; fused vs separate runs of the real interpreter on a shared symbolic initial state, z3 validity query per step and written persistent variable",
            "Per pair and renaming predicate: ids unique, first method unchanged, second method's edges preserved under the id map, temporaries disjoint, persistent names unrenamed (or as the predicate asks); then z3 proves for all integer initial states and function interpretations that after each of K=2 steps (thorough 3) every persistent variable a method writes has the value that method produces alone. Pairs: curated + seeded random with overlapping temporaries, statement ids, loop counters and shared inputs.",
            "Trusted: z3, symx, pymbolic's id map (captured by a spy). Semantic clause on non-interfering pairs only.",
            "DESIGN.md section 5 C16"),
})

CHECKS.update({
    "C07": ("translation_validation",
            "real rewriting passes on lowered PG phases; before/after trees executed by a reference tree executor in one symx path from a fully symbolic pre-state; z3 validity per original variable, event and external call; reads of unset introduced variables are violations",
            "Per phase and pass (four passes alone + the Fortran pipeline order read from the generator's current source): z3 proves for all integer pre-states and function interpretations that every original variable, every event, the outcome and the multiset of external calls are unchanged, and that no introduced variable is read before it is set; statement ids stay unique. One pipeline-level defect (calls hoisted out of conditional-expression branches) is a listed known finding.",
            "Trusted: z3, symx, RefAst (vf/refast.py). Loop bounds 0..2, arrays length 3, <=60 paths per (phase, pass) in quick.",
            "DESIGN.md section 5 C07"),
})

CHECKS.update({
    "C05": ("other",
            "real create_ast_from_phase and real lower_node on enumerated hand-built phases; storage order symbolic (rank-sorted by forking), guard flags symbolic; per leaf a z3 validity query (tree path condition <=> declared guard), order inversions allowed only if z3 proves mutual exclusion",
            "Bounded symbolic checking: for each enumerated phase (kinds x guards x loop nests x acyclic edges, N<=3 bounded-exhaustive, every guard word on dependency chains of 5-6 (thorough 7) statements, N=4..5 seeded random) and every storage order, the lowered tree contains exactly the non-Nop statements once, inside exactly their declared loops, under a path condition z3 proves equivalent to the declared guard for all flag valuations, in an order consistent with the transitive dependencies under every valuation; the tree is the same for all storage orders; the generic walker's callbacks are the in-order traversal.",
            "Trusted: z3, the independent flattener/serialiser in vf/checks/c05.py. Flags are not assigned inside the phase.",
            "DESIGN.md section 5 C05"),
})

CHECKS.update({
    "C09": ("other",
            "real kind inference (concrete) + real interpreter on values carrying a symbolic type tag (z3 Int over the type universe) with promotion rules as z3 terms; input and user-function result types constrained only by their kinds; z3 validity query at every store; concrete side check of built-in result kinds",
            "Bounded symbolic checking over types: for every typed program on which inference succeeds, every assigned variable has a kind and, for ALL type assignments to inputs and user-function results that conform to their kinds, every value the interpreter stores conforms to the inferred kind of its variable (z3 decides per store). Built-in result kinds vs. the real NumPy-based implementations are a labelled concrete side check.",
            "Trusted: z3, symx, the TypedSym promotion rules (Python/NumPy documented promotion), builtin typing table obtained from the current implementations. Value-dependent complexification of powers outside.",
            "DESIGN.md section 5 C09"),
})

CHECKS.update({
    "C20": ("other",
            "AST-lifted current source of wrap_line_base/pad_python/pad_fortran (len -> symbolic length) run on abstract strings whose token lengths, level and width are z3 integers; per multi-token line a z3 validity query (fits the width); concrete enumeration of the real tokenisation on character strings and generated lines",
            "Part 1 (solver): for 1..5 tokens (thorough 6) of ANY lengths 1..200, any level 0..8 and width 8..132, every layout path of the real wrapping algorithm keeps token order, ends non-final lines with the continuation marker as last character, and z3 proves every line with more than one token fits the width. Part 2 (bounded enumeration, labelled): the real tokeniser on all lexable strings of <=6 characters over an adversarial alphabet and on every line the generators emit for the corpus at forcing widths: quoted strings unchanged and unsplit; wrapped Python parses to the same AST.",
            "Trusted: z3, the AStr rope model, the quoted-region scanner oracle. The tokenizer is a stub in part 1.",
            "DESIGN.md section 5 C20"),
})

CHECKS.update({
    "C13": ("exploration",
            "z3-String symbolic execution of is_state_variable and the two name-manager dispatchers (all strings), then bounded enumeration of concrete name sets through the real name managers (the maps hash the name, so it cannot stay symbolic)",
            "Part A (solver): for ALL strings the persistent/per-step classification and the dispatch to name_global/name_local equal the documented rule (z3 String theory, 7-8 paths per dispatcher). Part B (exploration, said plainly): ordered pairs over a focused adversarial family and seeded random sets of 2..4 names (tags x bodies over y Y _ ^ * 0 <, long names), each mapped and looked up again: legal identifiers, pairwise distinct (Fortran: case-insensitively), not reserved, stable, right storage class. Over-long Fortran identifiers are a listed known finding.",
            "Trusted: z3 string solver, the identifier rules stated in the assumptions, reserved identifiers harvested from a generated module.",
            "DESIGN.md section 5 C13"),
})

CHECKS.update({
    "C15": ("other",
            "real generators and interpreter executed with set iteration order as a symbolic input (ranked frozenset/set injected into dagrt's module globals, one z3 rank per element, forks where two elements are compared); output digest equal on all order paths; history clause concrete; replay by permuted statement lists and a PYTHONHASHSEED scan in subprocesses",
            "Bounded symbolic checking over iteration orders: for each program, generator (Python, Fortran) / interpreter and universe (statement objects+ids | variable names), every distinguishable iteration order of every iterated set is a path (z3 prunes inconsistent rank comparisons); the emitted text / event trace must have the same digest on all of them. Separate concrete clause: P generated after an unrelated Q in one process. The process-global ArrayType index counter is a listed known finding.",
            "Trusted: z3, ranked containers. Orders = one global rank per universe; statement universe for phases of <=5 statements; set displays/comprehensions not intercepted (listed); <=150 (thorough 400) order paths per exploration else incomplete.",
            "DESIGN.md section 5 C15"),
})

CHECKS.update({
    "C03": ("translation_validation",
            "translation validation of the emitted Fortran text: fsym (reader + symbolic executor of the emitted subset, z3 Reals, guards fork) vs the real interpreter in one symx path on symbolic real inputs; z3 validity per persistent variable / returned slot / next phase after every run; gfortran syntax check and fsym-vs-gfortran conformance as labelled concrete side checks; candidates replayed with a generated driver compiled by gfortran",
            "For each program of the Fortran-supported subset the module emitted by the real generator is executed symbolically for K=3 runs (thorough 4) and z3 proves, for all real inputs (exact arithmetic), that after every run the persistent variables, the ret_state/ret_time/ret_time_id slots and dagrt_next_phase equal what the real interpreter holds; a STOP must coincide with a Raise. The integer quotient of loop counters is a listed known finding.",
            "Trusted: z3, fsym (validated against gfortran binaries on concrete inputs in every run; unsupported constructs are harness errors), gfortran for the compile clause. Outside: IEEE rounding, LAPACK built-ins, isnan.",
            "DESIGN.md section 5 C03"),
})

CHECKS.update({
    "C12": ("other",
            "fsym symbolic execution of the emitted Fortran module with a heap model (blocks, pointer association, reference counts are ordinary program data): initialize, K runs, shutdown on symbolic inputs so that every feasible sequence of completed / failed / switched steps is a path; per path no memory error, nothing live after shutdown, no leak message; candidates confirmed by gfortran -fsanitize=address; concrete ASan sweep as labelled side check",
            "Bounded symbolic checking of memory safety of the emitted text: for each program with user-type variables (temporaries, moves, overwrites, yields of temporaries, guarded blocks, failures, early switches) and all real inputs, on every path of K=3 runs (thorough 4) followed by shutdown: every access goes through an associated pointer to a live block, every DEALLOCATE hits a live block, every block the module allocated is freed, shutdown reports no leaked reference.",
            "Trusted: z3, fsym's heap model (mine; every reported violation is confirmed by ASan/LSan on the compiled module first). STOP ends the program. LAPACK built-ins outside.",
            "DESIGN.md section 5 C12"),
})

NOT_APPLICABLE = {
}

PENDING_REASON = "check not built yet in this round; no claim is made (see DESIGN.md section 11 build order)"


def main():
    with open(os.path.join(VERIF, "properties.jsonl")) as f:
        pids = [json.loads(line)["id"] for line in f if line.strip()]
    checks = []
    for pid in pids:
        if pid not in CHECKS:
            continue
        level, technique, text, note, ref = CHECKS[pid]
        checks.append({
            "property_id": pid,
            "quick_cmd": "bin/check %s quick" % pid,
            "thorough_cmd": "bin/check %s thorough" % pid,
            "evidence_file": "evidence/%s.json" % pid,
            "replay_cmd_template": "bin/replay {path}",
            "engine": "symx",
            "level_claimed": {"category": level, "text": text, "design_ref": ref},
            "level_note": note,
            "technique": technique,
        })
    na = []
    for pid in pids:
        if pid in CHECKS:
            continue
        na.append({"property_id": pid,
                   "reason": NOT_APPLICABLE.get(pid, PENDING_REASON)})
    manifest = {
        "version": 1,
        "setup_cmd": "bin/ensure_env.sh",
        "hooks": {
            "guard": "DAGRT_VERIF",
            "enable": "no source hooks are needed: recording stores, ranked containers and stubs are installed from the harness by attribute substitution at run time; checks import dagrt from /repo's working tree (VERIF_REPO overrides for development)",
            "baseline_off_cmd": "cd /repo && /venv/bin/python -m pytest -ra -q -p no:cacheprovider --timeout=900 --continue-on-collection-errors",
            "source_commits": [],
            "add_only": True,
        },
        "engines": [
            {"name": "symx", "path": "vf/symx.py",
             "serves_properties": sorted(CHECKS),
             "kind_free_text": "path-forking symbolic executor (DFS with re-execution) with z3 proxy values run through the real dagrt code; per-path validity queries; counterexamples replayed concretely in a fresh process"},
        ],
        "checks": checks,
        "not_applicable": na,
        "notes": "Solver-based checking of the real code (z3 via vf/symx). Exit codes: 0 held / 1 VIOLATION (replayed) / 3 harness error. Known findings: known_findings.json. Every work item runs in its own forked process; a z3 call that ignores its timeout gets the process stopped and the item is reported as undecided (evidence: work_items_lost_to_solver_hang). Budgets are CPU time. Thorough tier re-asks every 400th validity query of cvc5. See DESIGN.md section 12.",
    }
    with open(os.path.join(VERIF, "MANIFEST.json"), "w") as f:
        json.dump(manifest, f, indent=1)
        f.write("\n")


if __name__ == "__main__":
    main()
