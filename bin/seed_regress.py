#!/usr/bin/env python3
"""Regression over the stored seeded changes (development helper, DESIGN.md 12.5):
each seeded/<dir>/patch.diff is applied to a scratch copy of /repo (never to /repo),
the check of its property runs with VERIF_REPO pointing at the copy, and the
outcome goes to seeded/results.json.

  bin/seed_regress.py [dir names...]
"""
import json
import os
import shutil
import subprocess
import sys
import time

VERIF = os.path.dirname(os.path.dirname(os.path.abspath(__file__)))
SCRATCH = "/tmp/vf_seed_repo"


def sh(cmd, **kw):
    return subprocess.run(cmd, shell=True, capture_output=True, text=True, **kw)


def main(argv):
    want = set(argv[1:])
    out_path = os.path.join(VERIF, "seeded", "results.json")
    results = json.load(open(out_path)) if os.path.exists(out_path) else {}
    for d in sorted(os.listdir(os.path.join(VERIF, "seeded"))):
        patch = os.path.join(VERIF, "seeded", d, "patch.diff")
        if not os.path.exists(patch) or (want and d not in want):
            continue
        pid = d.split("_")[0]
        meta_path = os.path.join(VERIF, "seeded", d, "meta.json")
        meta = json.load(open(meta_path)) if os.path.exists(meta_path) else {}
        if meta.get("neutralised_by_fix"):
            # the change no longer violates the property on the repaired tree (its own demonstration passes): nothing to catch
            results[d] = {"property": pid, "status": "neutralised by fix %s (the seeded change no longer breaks the property)" % meta["neutralised_by_fix"]}
            print(d, results[d]["status"])
            json.dump(results, open(out_path, "w"), indent=1, sort_keys=True)
            continue
        shutil.rmtree(SCRATCH, ignore_errors=True)
        os.makedirs(SCRATCH)
        sh("cp -r /repo/dagrt /repo/test /repo/setup.py /repo/setup.cfg %s/ 2>/dev/null" % SCRATCH)
        a = sh("cd %s && patch -p1 --no-backup-if-mismatch < %s" % (SCRATCH, patch))
        if a.returncode != 0:
            results[d] = {"status": "patch does not apply to the current tree", "detail": (a.stdout + a.stderr)[-300:]}
            print(d, results[d]["status"])
            continue
        t0 = time.time()
        p = sh("cd %s && VERIF_REPO=%s bin/check %s quick" % (VERIF, SCRATCH, pid))
        viol = [l for l in p.stdout.splitlines() if l.startswith("VIOLATION")]
        results[d] = {"property": pid, "exit": p.returncode, "violations": len(viol), "wall_s": round(time.time() - t0, 1),
                      "status": "caught" if p.returncode == 1 and viol else "MISSED"}
        print(d, results[d])
        json.dump(results, open(out_path, "w"), indent=1, sort_keys=True)
    shutil.rmtree(SCRATCH, ignore_errors=True)
    sh("rm -rf %s/replays/C*" % VERIF)


if __name__ == "__main__":
    main(sys.argv)
