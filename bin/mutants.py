#!/usr/bin/env python3
"""Development mutant sweep (DESIGN.md appendix): one-line edits of dagrt applied
to a scratch copy (never to /repo), baseline suite run on the copy, then the
named checks run with VERIF_REPO pointing at the copy.

  bin/mutants.py [ids...]      results -> mutants/results.json (committed by hand)
"""
import json
import os
import shutil
import subprocess
import sys
import time

VERIF = os.path.dirname(os.path.dirname(os.path.abspath(__file__)))
SCRATCH = "/tmp/vf_mutant_repo"

# id, file, old, new, checks expected to catch it
M = [
    ("M01", "dagrt/language.py", "            depends_on |= readers\n", "            pass\n", ["C02"]),
    ("M02", "dagrt/language.py", "            written_variables.add(self._EXECUTION_STATE)\n", "            pass\n", ["C02", "C01"]),
    ("M03", "dagrt/language.py", "                LogicalNot(self._last_if_block_conditional_expression))",
     "                self._last_if_block_conditional_expression)", ["C01"]),
    ("M04", "dagrt/exec_numpy.py", "        finally:\n            # discard non-permanent per-step state\n",
     "        except KeyboardInterrupt:\n            # discard non-permanent per-step state\n", ["C11", "C01"]),
    ("M05", "dagrt/language.py", "            self.executed_ids.add(stmt_id)\n\n            stmt = id_to_stmt[stmt_id]",
     "            stmt = id_to_stmt[stmt_id]", ["C04"]),
    ("M06", "dagrt/language.py", "            for dep_id in stmt.depends_on:\n                add_with_deps(id_to_stmt[dep_id])\n\n            assert stmt_id not in self.plan_id_set\n\n            early_plan.append(stmt_id)\n",
     "            early_plan.append(stmt_id)\n\n            for dep_id in stmt.depends_on:\n                add_with_deps(id_to_stmt[dep_id])\n", ["C04"]),
    ("M07", "dagrt/codegen/dag_ast.py", "            statement_to_ast(new_statement),\n            NullASTNode())",
     "            NullASTNode(),\n            statement_to_ast(new_statement))", ["C05", "C01"]),
    ("M08", "dagrt/codegen/dag_ast.py", "        loop_var_name, lower, upper = statement.loops[0]\n        new_statement = statement.copy(loops=statement.loops[1:])",
     "        loop_var_name, lower, upper = statement.loops[-1]\n        new_statement = statement.copy(loops=statement.loops[:-1])", ["C05"]),
    ("M09", "dagrt/codegen/dag_ast.py", "            condition = condition.child\n            then, else_ = (else_, then)",
     "            condition = condition.child", ["C06"]),
    ("M10", "dagrt/codegen/dag_ast.py", "                    and current_child.condition == next_child.condition:",
     "                    and str(current_child.condition).lstrip('not ') == str(next_child.condition).lstrip('not '):", ["C06"]),
    ("M11", "dagrt/codegen/transform.py", "                    include_lhs=False)\n                .copy(", "                    include_lhs=True)\n                .copy(", ["C07"]),
    ("M12", "dagrt/codegen/transform.py", "        tmp_var_name = self.var_name_gen(\"tmp\")\n\n        tmp_stmt_id = self.stmt_id_gen(\"tmp\")\n        extra_deps.append(tmp_stmt_id)\n\n        sub_extra_deps = []\n        rec_result = self.rec(",
     "        tmp_var_name = \"tmp_shared\"\n\n        tmp_stmt_id = self.stmt_id_gen(\"tmp\")\n        extra_deps.append(tmp_stmt_id)\n\n        sub_extra_deps = []\n        rec_result = self.rec(", ["C07"]),
    ("M13", "dagrt/codegen/transform.py", "        else_condition = flat_LogicalAnd(base_condition, LogicalNot(flag))",
     "        else_condition = flat_LogicalAnd(base_condition, flag)", ["C07", "C03"]),
    ("M14", "dagrt/language.py", "        for par in self.kw_parameters.values():\n            result |= get_variables(par)\n\n        return result",
     "        return result", ["C08", "C02"]),
    ("M15", "dagrt/language.py", "                | get_variables(self.expression)\n                | get_variables(self.time))",
     "                | get_variables(self.expression))", ["C08"]),
    ("M16", "dagrt/data.py", "        assert isinstance(kind_b, Scalar)\n        return Scalar(\n                not (not kind_a.is_real_valued or not kind_b.is_real_valued))",
     "        assert isinstance(kind_b, Scalar)\n        return Scalar(kind_a.is_real_valued)", ["C14", "C09"]),
    ("M17", "dagrt/data.py", "    def map_comparison(self, expr):\n        return Boolean()", "    def map_comparison(self, expr):\n        return Scalar(is_real_valued=True)", ["C09"]),
    ("M18", "dagrt/codegen/analysis.py", "                if neighbor in visiting:", "                if neighbor in visited:", ["C10"]),
    ("M19", "dagrt/codegen/analysis.py", "        if len(insts) > 1:", "        if len(insts) > 2:", ["C10"]),
    ("M20", "dagrt/codegen/python.py", "                    yield self.StepFailed(t=self.t)\n                    continue", "                    yield self.StepFailed(t=self.t)", ["C01"]),
    ("M21", "dagrt/codegen/expressions.py", "                then=self.rec(expr.then, PREC_LOGICAL_OR),\n                cond=self.rec(expr.condition, PREC_LOGICAL_OR),\n                else_=self.rec(expr.else_, PREC_LOGICAL_OR)),",
     "                then=self.rec(expr.then, PREC_NONE),\n                cond=self.rec(expr.condition, PREC_NONE),\n                else_=self.rec(expr.else_, PREC_NONE)),", ["C01"]),
    ("M22", "dagrt/utils.py", "        if i in arg_dict:\n            args.append(arg_dict.pop(i))\n            if name in arg_dict:\n                raise TypeError(\"argument '%d' specified both \"\n                        \"positionally and by keyword\" % arg_names[i])\n        elif name in arg_dict:\n            args.append(arg_dict.pop(name))",
     "        if name in arg_dict:\n            args.append(arg_dict.pop(name))\n            arg_dict.pop(i, None)\n        elif i in arg_dict:\n            args.append(arg_dict.pop(i))", ["C01"]),
    ("M23", "dagrt/codegen/fortran.py", "                + self.phase_name_to_phase_sym(inst.next_phase))\n        self.emit(\"goto 999\")",
     "                + self.phase_name_to_phase_sym(inst.next_phase))", ["C03"]),
    ("M25", "dagrt/codegen/fortran.py", "refcount.eq.1", "refcount.eq.0", ["C12"]),
    ("M26", "dagrt/codegen/utils.py", "    result = result.lstrip(\"_\")\n", "", ["C13"]),
    ("M28", "dagrt/codegen/dag_ast.py", "    stack.extend(sorted(phase.depends_on))", "    stack.extend(phase.depends_on)", ["C15"]),
    ("M30", "dagrt/expression.py", "        return self.map_modulo_identity(expr, other, urecs, mapper, 0)",
     "        return self.map_modulo_identity(expr, other, urecs, mapper, 1)", ["C17"]),
    ("M31", "dagrt/expression.py", "            if self.is_constant[child]:\n                constants.append(child)",
     "            if self.is_constant[child] or isinstance(child, Variable):\n                constants.append(child)", ["C18"]),
    ("M32", "dagrt/expression.py", "            return var(varname[1:-1])", "            return var(varname[1:])", ["C19"]),
    ("M33", "dagrt/codegen/utils.py", "            if next_len < width or (not has_next_word and next_len == width):",
     "            if next_len <= width or (not has_next_word and next_len == width):", ["C20"]),
    ("M34", "dagrt/codegen/python.py", "    line += \" \" * (width - 1 - len(line))\n    line += \"\\\\\"", "    line += \" \" * (width - len(line))\n    line += \"\\\\\"", ["C20"]),
    ("M35", "dagrt/transform.py", "                    should_disambiguate_name),\n                should_disambiguate_name)",
     "                    should_disambiguate_name),\n                lambda name: False)", ["C16"]),
    ("M36", "dagrt/codegen/fortran.py", "        for identifier, sym_kind in sorted(sym_table.items()):\n            self.emit_variable_deinit(identifier, sym_kind)\n\n        # }}}\n\n        self.emit_trace(\"leave",
     "        # }}}\n\n        self.emit_trace(\"leave", ["C12"]),
]


def sh(cmd, **kw):
    return subprocess.run(cmd, shell=True, capture_output=True, text=True, **kw)


def main(argv):
    want = set(argv[1:])
    results = {}
    out_path = os.path.join(VERIF, "mutants", "results.json")
    if os.path.exists(out_path):
        results = json.load(open(out_path))
    for mid, path, old, new, checks in M:
        if want and mid not in want:
            continue
        shutil.rmtree(SCRATCH, ignore_errors=True)
        os.makedirs(SCRATCH)
        sh("cp -r /repo/dagrt /repo/test /repo/setup.py /repo/setup.cfg %s/ 2>/dev/null" % SCRATCH)
        src = open(os.path.join(SCRATCH, path)).read()
        if old not in src:
            results[mid] = {"status": "edit does not apply (source changed)"}
            print(mid, results[mid])
            continue
        open(os.path.join(SCRATCH, path), "w").write(src.replace(old, new, 1))
        t = sh("cd %s && PYTHONPATH=%s /venv/bin/python -m pytest -q -p no:cacheprovider -x test 2>&1 | tail -1" % (SCRATCH, SCRATCH))
        suite = t.stdout.strip()
        entry = {"file": path, "suite": suite, "checks": {}}
        if "passed" in suite and "failed" not in suite and "error" not in suite:
            for c in checks:
                t0 = time.time()
                p = sh("cd %s && VERIF_REPO=%s bin/check %s quick" % (VERIF, SCRATCH, c))
                viol = [l for l in p.stdout.splitlines() if l.startswith("VIOLATION")]
                entry["checks"][c] = {"exit": p.returncode, "violations": len(viol), "wall_s": round(time.time() - t0, 1),
                                      "harness": [l[:200] for l in p.stdout.splitlines() if l.startswith("HARNESS")][:1]}
            entry["status"] = "caught" if any(v["exit"] == 1 and v["violations"] for v in entry["checks"].values()) else "MISSED"
        else:
            entry["status"] = "killed by the existing suite"
        results[mid] = entry
        print(mid, entry["status"], {c: (v["exit"], v["violations"]) for c, v in entry["checks"].items()}, suite[:40])
        os.makedirs(os.path.dirname(out_path), exist_ok=True)
        json.dump(results, open(out_path, "w"), indent=1, sort_keys=True)
    shutil.rmtree(SCRATCH, ignore_errors=True)
    sh("rm -rf %s/replays/C*" % VERIF)


if __name__ == "__main__":
    main(sys.argv)
