#!/bin/bash
# bin/seed_eval.sh <PID> <worktree> [check ids...]   (development helper)
# 1. verifies a sub-agent's seeded defect (suite passes with the change, demo
#    fails with it and passes without), 2. stores it under seeded/<PID>/,
# 3. applies it to /repo, runs the given checks (default: <PID>), undoes it.
set -u
PID=$1; WT=$2; shift 2
CHECKS="${*:-$PID}"
VERIF="$(cd "$(dirname "$0")/.." && pwd)"
OUT="$VERIF/seeded/$PID${SUFFIX:-}"; mkdir -p "$OUT"   # SUFFIX=_r2 for the second round
cd "$WT" || exit 2
git diff -- dagrt > "$OUT/patch.diff"
[ -s "$OUT/patch.diff" ] || { echo "no source change in $WT"; exit 2; }
cp "$WT"/demo_$PID.py "$OUT/" 2>/dev/null; cp "$WT"/NOTES_$PID.md "$OUT/" 2>/dev/null
echo "== suite with change:"; (cd "$WT" && PYTHONPATH="$WT" /venv/bin/python -m pytest -q -p no:cacheprovider test 2>&1 | tail -1) | tee "$OUT/.suite"
echo "== demo with change:"; (cd "$WT" && PYTHONPATH="$WT" timeout 300 /venv/bin/python demo_$PID.py >/dev/null 2>&1; echo "exit $?") | tee "$OUT/.demo_with"
# (git stash is shared by all worktrees of a repository: reverse-apply the stored patch instead)
git apply -R "$OUT/patch.diff"
echo "== demo without change:"; (cd "$WT" && PYTHONPATH="$WT" timeout 300 /venv/bin/python demo_$PID.py >/dev/null 2>&1; echo "exit $?") | tee "$OUT/.demo_without"
git apply "$OUT/patch.diff"
cd "$VERIF"
if [ -n "${SCRATCH:-}" ]; then
  # do not touch /repo (e.g. while a sweep is reading it): scratch copy + VERIF_REPO
  python3 bin/seed_regress.py "$(basename "$OUT")"; exit 0
fi
git -C /repo apply "$OUT/patch.diff" || { echo "patch does not apply to /repo"; exit 2; }
for c in $CHECKS; do
  echo "== check $c on /repo with the seeded change:"
  bin/check $c quick > "$OUT/.check_$c.log" 2>&1; echo "exit $?" | tee "$OUT/.check_$c.exit"
  grep -E "^VIOLATION|^KNOWN|^HARNESS|^$c " "$OUT/.check_$c.log" | head -4 | cut -c1-300
done
git -C /repo checkout -- .
git -C /repo status --short | head -3
