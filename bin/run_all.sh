#!/bin/bash
# bin/run_all.sh [quick|thorough] [ids...]  -- development helper: run every registered check, print a summary
TIER=${1:-quick}; shift
VERIF="$(cd "$(dirname "$0")/.." && pwd)"; cd "$VERIF"
IDS="${*:-C01 C02 C03 C04 C05 C06 C07 C08 C09 C10 C11 C12 C13 C14 C15 C16 C17 C18 C19 C20}"
for c in $IDS; do
  s=$(date +%s.%N)
  bin/check $c $TIER > /tmp/runall_${VERIF_SEED:-1}_$$_$c.log 2>&1; rc=$?
  e=$(date +%s.%N)
  printf "%s rc=%d %6.1fs  %s\n" $c $rc $(echo "$e - $s" | bc) "$(grep -E "^$c $TIER" /tmp/runall_${VERIF_SEED:-1}_$$_$c.log | cut -c1-160)"
  grep -E "^VIOLATION|^HARNESS" /tmp/runall_${VERIF_SEED:-1}_$$_$c.log | head -2 | cut -c1-200
done
