"""JSON-serialisable expression DSL <-> pymbolic, plus generators.

  ["v", name]                variable
  ["c", value]               constant: int | float | bool | "inf" | "-inf" | "nan" | "np:2.0" | "str:abc"
  ["+", a, b, ...]  ["*", a, b, ...]  ["/", a, b]  ["//", a, b]  ["%", a, b]  ["**", a, b]
  ["cmp", op, a, b]  ["not", a]  ["and", a, ...]  ["or", a, ...]
  ["if", c, t, e]  ["min", a, ...]  ["max", a, ...]
  ["sub", agg, idx]          subscript;  ["sub", agg, i, j] a two-dimensional one (the index is a tuple)
  ["call", fname, [args], {kw: expr}]   (Call if no kwargs else CallWithKwargs)
  ["attr:NAME", agg]         attribute lookup agg.NAME (real, imag, size)
"""
import itertools


def build(d):
    import pymbolic.primitives as p
    k = d[0]
    if k == "v":
        return p.Variable(d[1])
    if k == "c":
        return build_const(d[1])
    if k == "+":
        return p.Sum(tuple(build(x) for x in d[1:]))
    if k == "*":
        return p.Product(tuple(build(x) for x in d[1:]))
    if k == "/":
        return p.Quotient(build(d[1]), build(d[2]))
    if k == "//":
        return p.FloorDiv(build(d[1]), build(d[2]))
    if k == "%":
        return p.Remainder(build(d[1]), build(d[2]))
    if k == "**":
        return p.Power(build(d[1]), build(d[2]))
    if k == "cmp":
        return p.Comparison(build(d[2]), d[1], build(d[3]))
    if k == "not":
        return p.LogicalNot(build(d[1]))
    if k == "and":
        return p.LogicalAnd(tuple(build(x) for x in d[1:]))
    if k == "or":
        return p.LogicalOr(tuple(build(x) for x in d[1:]))
    if k == "if":
        return p.If(build(d[1]), build(d[2]), build(d[3]))
    if k == "min":
        return p.Min(tuple(build(x) for x in d[1:]))
    if k == "max":
        return p.Max(tuple(build(x) for x in d[1:]))
    if k == "sub":
        if len(d) > 3:
            return p.Subscript(build(d[1]), tuple(build(x) for x in d[2:]))
        return p.Subscript(build(d[1]), build(d[2]))
    if k.startswith("attr:"):
        return p.Lookup(build(d[1]), k[5:])
    if k == "call":
        args = tuple(build(x) for x in d[2])
        kw = d[3] if len(d) > 3 else {}
        if isinstance(kw, list):
            # explicit keyword order: [[name, expr], ...]
            kw = {n: v for n, v in kw}
        if kw:
            from immutabledict import immutabledict
            return p.CallWithKwargs(p.Variable(d[1]), args,
                                    immutabledict({n: build(v) for n, v in kw.items()}))
        return p.Call(p.Variable(d[1]), args)
    raise ValueError(d)


def build_const(v):
    if isinstance(v, str):
        if v in ("inf", "-inf", "nan"):
            return float(v)
        if v.startswith("np:"):
            import numpy as np
            return np.float64(float(v[3:]))
        if v.startswith("str:"):
            return v[4:]
        if v.startswith("cplx:"):
            return complex(v[5:])
        raise ValueError(v)
    return v


def to_dsl(e):
    """pymbolic -> DSL (for samples / minimisation)."""
    n = type(e).__name__
    import numpy as np
    if isinstance(e, (bool, int, float)) and not isinstance(e, np.generic):
        if isinstance(e, float) and (e != e or e in (float("inf"), float("-inf"))):
            return ["c", repr(e)]
        return ["c", e]
    if isinstance(e, np.floating):
        return ["c", "np:" + repr(float(e))]
    if isinstance(e, np.integer):
        return ["c", int(e)]
    if isinstance(e, complex):
        return ["c", "cplx:" + repr(e)]
    if isinstance(e, str):
        return ["c", "str:" + e]
    if n == "Variable":
        return ["v", e.name]
    if n == "Sum":
        return ["+"] + [to_dsl(c) for c in e.children]
    if n == "Product":
        return ["*"] + [to_dsl(c) for c in e.children]
    if n == "Quotient":
        return ["/", to_dsl(e.numerator), to_dsl(e.denominator)]
    if n == "FloorDiv":
        return ["//", to_dsl(e.numerator), to_dsl(e.denominator)]
    if n == "Remainder":
        return ["%", to_dsl(e.numerator), to_dsl(e.denominator)]
    if n == "Power":
        return ["**", to_dsl(e.base), to_dsl(e.exponent)]
    if n == "Comparison":
        return ["cmp", e.operator, to_dsl(e.left), to_dsl(e.right)]
    if n == "LogicalNot":
        return ["not", to_dsl(e.child)]
    if n == "LogicalAnd":
        return ["and"] + [to_dsl(c) for c in e.children]
    if n == "LogicalOr":
        return ["or"] + [to_dsl(c) for c in e.children]
    if n == "If":
        return ["if", to_dsl(e.condition), to_dsl(e.then), to_dsl(e.else_)]
    if n == "Min":
        return ["min"] + [to_dsl(c) for c in e.children]
    if n == "Max":
        return ["max"] + [to_dsl(c) for c in e.children]
    if n == "Subscript":
        idx = e.index
        if isinstance(idx, tuple):
            if len(idx) != 1:
                return ["sub", to_dsl(e.aggregate)] + [to_dsl(x) for x in idx]
            idx = idx[0]
        return ["sub", to_dsl(e.aggregate), to_dsl(idx)]
    if n == "Lookup":
        return ["attr:" + e.name, to_dsl(e.aggregate)]
    if n == "Call":
        return ["call", e.function.name, [to_dsl(x) for x in e.parameters], {}]
    if n == "CallWithKwargs":
        return ["call", e.function.name, [to_dsl(x) for x in e.parameters],
                {k: to_dsl(v) for k, v in sorted(e.kw_parameters.items())}]
    raise ValueError("to_dsl: %s %r" % (n, e))


def kwitems(d):
    """Keyword arguments of a call term as a list of (name, term) in their
    written order (the DSL allows a dict or an explicit list of pairs)."""
    kw = d[3] if len(d) > 3 else {}
    return list(kw.items()) if isinstance(kw, dict) else [(x[0], x[1]) for x in kw]


def size(d):
    if d[0] in ("v", "c"):
        return 1
    if d[0] == "cmp":
        return 1 + size(d[2]) + size(d[3])
    if d[0] == "call":
        return 1 + sum(size(x) for x in d[2]) + sum(size(v) for _, v in kwitems(d))
    return 1 + sum(size(x) for x in d[1:])


def subterms(d, path=()):
    """yield (path, subterm) for every proper/improper subterm position."""
    yield path, d
    k = d[0]
    if k in ("v", "c"):
        return
    if k == "cmp":
        yield from subterms(d[2], path + (2,))
        yield from subterms(d[3], path + (3,))
    elif k == "call":
        for i, x in enumerate(d[2]):
            yield from subterms(x, path + (2, i))
        for n, v in kwitems(d):
            yield from subterms(v, path + (3, n))
    else:
        for i in range(1, len(d)):
            yield from subterms(d[i], path + (i,))


def replace_at(d, path, new):
    if not path:
        return new
    d = list(d)
    k = path[0]
    if d[0] == "call" and k in (2, 3):
        if k == 2:
            args = list(d[2])
            args[path[1]] = replace_at(args[path[1]], path[2:], new)
            d[2] = args
        else:
            kw = [[n, (replace_at(v, path[2:], new) if n == path[1] else v)] for n, v in kwitems(d)]
            d[3] = kw if isinstance(d[3], list) else dict((n, v) for n, v in kw)
        return d
    d[k] = replace_at(d[k], path[1:], new)
    return d


# ---------------------------------------------------------------------------
# random generation

class Gen:
    """Random expression generator with typed (num/bool) positions."""

    def __init__(self, rng, vars_num=("a", "b", "c"), vars_bool=(), consts=(0, 1, 2, -1, 3),
                 funcs=("<func>f", "<func>g"), ops=None, arrays=(), kwnames=("k", "m"),
                 float_consts=(), literal_exponents=False):
        self.rng = rng
        # programs that are EXECUTED over several steps: a power whose exponent is a run-time value can tower
        # (acc <- acc + acc**acc in a loop is 3, 30, 30**30, ... on a path where acc is the concrete 3) and the real
        # evaluator would compute it on concrete integers; such generators use small literal exponents only
        self.literal_exponents = literal_exponents
        self.vars_num = list(vars_num)
        self.vars_bool = list(vars_bool)
        self.consts = list(consts)
        self.float_consts = list(float_consts)
        self.funcs = list(funcs)
        self.arrays = list(arrays)
        self.kwnames = list(kwnames)
        self.ops = set(ops if ops is not None else
                       ["+", "*", "/", "**", "cmp", "not", "and", "or", "if",
                        "min", "max", "call", "callkw", "sub"])

    def leaf_num(self):
        r = self.rng.random()
        if r < 0.6 and self.vars_num:
            return ["v", self.rng.choice(self.vars_num)]
        if r < 0.7 and self.float_consts:
            return ["c", self.rng.choice(self.float_consts)]
        return ["c", self.rng.choice(self.consts)]

    def num(self, depth):
        if depth <= 0:
            return self.leaf_num()
        choices = [o for o in ("+", "*", "/", "**", "if", "min", "max", "call",
                               "callkw", "sub", "leaf", "//", "%", "attr", "sub2") if o in self.ops or o == "leaf"]
        o = self.rng.choice(choices)
        if o == "leaf":
            return self.leaf_num()
        if o in ("+", "*"):
            n = self.rng.choice([2, 2, 3])
            return [o] + [self.num(depth - 1) for _ in range(n)]
        if o in ("/", "**", "//", "%"):
            a, b = self.num(depth - 1), self.num(depth - 1)
            if o in ("/", "//", "%") and b == ["c", 0]:
                # division by the literal 0 is outside every claim, uninterpreted in the symbolic run and an error in every
                # concrete replay (a candidate found next to it could never be confirmed)
                b = ["c", 2]
            if o == "**" and self.literal_exponents:
                b = ["c", self.rng.choice([0, 1, 2, 2, 3])]
            if o == "**" and b[0] not in ("v", "c") and not any(sub[0] == "v" for _, sub in subterms(b)):
                # an exponent that is a compound constant expression makes a tower like 3**(3**(3**3)), which the real
                # evaluator would compute on concrete integers (7.6e12 digits): keep constant exponents to one literal
                b = self.leaf_num()
            return [o, a, b]
        if o == "if":
            return ["if", self.boolean(depth - 1), self.num(depth - 1), self.num(depth - 1)]
        if o in ("min", "max"):
            return [o, self.num(depth - 1), self.num(depth - 1)]
        if o == "call":
            n = self.rng.choice([1, 2])
            return ["call", self.rng.choice(self.funcs), [self.num(depth - 1) for _ in range(n)], {}]
        if o == "callkw":
            n = self.rng.choice([0, 1])
            kws = self.rng.sample(self.kwnames, self.rng.choice([1, min(2, len(self.kwnames))]))
            return ["call", self.rng.choice(self.funcs), [self.num(depth - 1) for _ in range(n)],
                    {k: self.num(depth - 1) for k in kws}]
        if o == "sub":
            if not self.arrays:
                return self.leaf_num()
            return ["sub", ["v", self.rng.choice(self.arrays)], self.num(depth - 1)]
        if o == "sub2":
            # opt-in: a two-dimensional subscript m[i, j] (pymbolic stores the index as a tuple)
            if not self.arrays:
                return self.leaf_num()
            return ["sub", ["v", self.rng.choice(self.arrays)], self.num(depth - 1), self.num(depth - 1)]
        if o == "attr":
            # opt-in (not in the default operator set): z.real / z.imag of a scalar variable, v.size of an array
            if self.arrays and self.rng.random() < 0.3:
                return ["attr:size", ["v", self.rng.choice(self.arrays)]]
            if not self.vars_num:
                return self.leaf_num()
            return ["attr:" + self.rng.choice(["real", "imag"]), ["v", self.rng.choice(self.vars_num)]]
        raise AssertionError(o)

    def boolean(self, depth):
        choices = ["cmp"]
        if depth > 0:
            choices += [o for o in ("not", "and", "or") if o in self.ops]
        if self.vars_bool:
            choices.append("bvar")
        o = self.rng.choice(choices)
        if o == "bvar":
            return ["v", self.rng.choice(self.vars_bool)]
        if o == "cmp":
            op = self.rng.choice(["<", "<=", ">", ">=", "==", "!="])
            return ["cmp", op, self.num(max(0, depth - 1)), self.num(max(0, depth - 1))]
        if o == "not":
            return ["not", self.boolean(depth - 1)]
        n = self.rng.choice([2, 2, 3])
        return [o] + [self.boolean(depth - 1) for _ in range(n)]


def enumerate_exprs(depth, leaves, binops=("+", "*"), funcs=(), max_args=2):
    """All expressions up to `depth` over given leaves (DSL terms), binary
    n-ary ops and unary/binary calls.  Deterministic order."""
    if depth == 0:
        for l in leaves:
            yield l
        return
    subs = list(enumerate_exprs(depth - 1, leaves, binops, funcs, max_args))
    seen = set()
    for s in subs:
        key = repr(s)
        if key not in seen:
            seen.add(key)
            yield s
    for op in binops:
        for a, b in itertools.product(subs, repeat=2):
            yield [op, a, b]
    for f in funcs:
        for a in subs:
            yield ["call", f, [a], {}]
        if max_args >= 2:
            for a, b in itertools.product(subs, repeat=2):
                yield ["call", f, [a, b], {}]


def minimise(d, fails, fresh_prefix="z", max_steps=400):
    """Greedy delta debugging on a DSL term: repeatedly try to replace a
    subterm by one of its own children or by a fresh variable / small
    constant while `fails(term)` stays true.  Returns the minimal term."""
    steps = 0
    changed = True
    ctr = itertools.count()
    while changed and steps < max_steps:
        changed = False
        for path, sub in sorted(subterms(d), key=lambda ps: -size(ps[1])):
            if sub[0] in ("v", "c"):
                continue
            cands = []
            # children of the subterm
            for p2, s2 in subterms(sub):
                if len(p2) in (1, 2) and s2 is not sub:
                    cands.append(s2)
            cands.append(["v", "%s%d" % (fresh_prefix, next(ctr))])
            cands.append(["c", 1])
            for c in sorted(cands, key=size):
                if size(c) >= size(sub):
                    continue
                nd = replace_at(d, path, c)
                steps += 1
                try:
                    ok = fails(nd)
                except Exception:  # noqa
                    ok = False
                if ok:
                    d = nd
                    changed = True
                    break
            if changed:
                break
    return d
