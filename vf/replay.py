"""python -m vf.replay <file>         -- replay one stored counterexample
   python -m vf.replay --batch <file> -- internal: replay many, print results

Replays run the unmodified public API of the tree under test on concrete
values: no proxies, no monkey-patching.  Exit 1 when (any) violation
reproduces, 0 when none does."""
import importlib
import json
import sys

from vf import common  # noqa: F401  (sets sys.path)


def main(argv):
    batch = argv[1] == "--batch"
    path = argv[2] if batch else argv[1]
    with open(path) as f:
        doc = json.load(f)
    pid = doc["property"].replace("_unconfirmed", "")
    mod = importlib.import_module("vf.checks." + pid.lower())
    datas = doc["batch"] if batch else [doc["data"]]
    out = []
    for d in datas:
        try:
            r = mod.replay(d)
        except Exception as e:  # noqa
            import traceback
            r = {"reproduced": False,
                 "detail": "replay raised %s: %s\n%s" % (type(e).__name__, e,
                                                        traceback.format_exc()[-1500:])}
        out.append(r)
    if batch:
        print("REPLAY-RESULTS " + json.dumps(out, default=str))
    else:
        for r in out:
            print(json.dumps(r, indent=1, default=str))
    return 1 if any(r.get("reproduced") for r in out) else 0


if __name__ == "__main__":
    sys.exit(main(sys.argv))
