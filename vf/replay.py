"""python -m vf.replay <file>         -- replay one stored counterexample
   python -m vf.replay --batch <file> -- internal: replay many, print results

Replays run the unmodified public API of the tree under test on concrete
values: no proxies, no monkey-patching.  Exit 1 when (any) violation
reproduces, 0 when none does."""
import importlib
import json
import sys

from vf import common  # noqa: F401  (sets sys.path)


REPLAY_CPU_S = int(__import__("os").environ.get("VERIF_REPLAY_CPU_S", "40"))
REPLAY_AS_BYTES = 12 << 30


def _one(mod, d):
    try:
        return mod.replay(d)
    except MemoryError:
        return {"reproduced": False, "detail": "replay ran out of its memory allowance (concrete arithmetic on huge integers)"}
    except Exception as e:  # noqa
        import traceback
        return {"reproduced": False,
                "detail": "replay raised %s: %s\n%s" % (type(e).__name__, e, traceback.format_exc()[-1500:])}


def _parallel(mod, datas):
    """One forked process per candidate (at most NPROC at a time), each under a CPU and an address-space limit:
    concrete runs of a counterexample can involve astronomically large integers (z <- t*z*z, 3**x)."""
    import os
    import pickle
    import resource
    import tempfile
    import time
    nproc = common.NPROC
    tmpd = tempfile.mkdtemp(prefix="vf_replay_")
    out = [None] * len(datas)
    pending = list(range(len(datas)))[::-1]
    active = {}
    try:
        while pending or active:
            while pending and len(active) < nproc:
                i = pending.pop()
                respath = os.path.join(tmpd, "r%d.pkl" % i)
                sys.stdout.flush()
                pid = os.fork()
                if pid == 0:
                    code = 1
                    try:
                        resource.setrlimit(resource.RLIMIT_CPU, (REPLAY_CPU_S, REPLAY_CPU_S + 5))
                        resource.setrlimit(resource.RLIMIT_AS, (REPLAY_AS_BYTES, REPLAY_AS_BYTES))
                        r = _one(mod, datas[i])
                        with open(respath + ".tmp", "wb") as f:
                            pickle.dump(r, f)
                        os.rename(respath + ".tmp", respath)
                        code = 0
                    finally:
                        os._exit(code)
                active[pid] = (i, respath)
            time.sleep(0.01)
            for pid in list(active):
                i, respath = active[pid]
                done, status = os.waitpid(pid, os.WNOHANG)
                if done == 0:
                    continue
                del active[pid]
                if os.path.exists(respath):
                    with open(respath, "rb") as f:
                        out[i] = pickle.load(f)
                else:
                    out[i] = {"reproduced": False, "detail": "replay process ended without a result (wait status %d: CPU limit of %d s or "
                                                            "memory limit exceeded)" % (status, REPLAY_CPU_S)}
    finally:
        import shutil
        shutil.rmtree(tmpd, ignore_errors=True)
    return out


def main(argv):
    batch = argv[1] == "--batch"
    path = argv[2] if batch else argv[1]
    with open(path) as f:
        doc = json.load(f)
    pid = doc["property"].replace("_unconfirmed", "").replace("_soft", "")
    mod = importlib.import_module("vf.checks." + pid.lower())
    datas = doc["batch"] if batch else [doc["data"]]
    if batch and len(datas) > 1:
        out = _parallel(mod, datas)
    else:
        out = [_one(mod, d) for d in datas]
    if batch:
        print("REPLAY-RESULTS " + json.dumps(out, default=str))
    else:
        for r in out:
            print(json.dumps(r, indent=1, default=str))
    return 1 if any(r.get("reproduced") for r in out) else 0


if __name__ == "__main__":
    sys.exit(main(sys.argv))
