"""fsym -- reader and (symbolic or concrete) executor for the Fortran subset
the dagrt Fortran generator emits.

The observable behaviour of the Fortran back end is the behaviour of its output
TEXT.  fsym tokenises and parses exactly the narrow, regular subset the
generator emits (anything else raises Unsupported: a harness error, never a
pass) and executes it over an `ops` object: FloatOps (plain Python numbers,
used for the conformance run against gfortran) or SymOps (z3 proxies: reals are
exact, guards fork).  Heap model for C12: every ALLOCATE creates a Block
{id, live}; pointer cells hold a Block or None; deallocate / nullify /
associated / pointer assignment follow the Fortran rules; every dereference
checks liveness."""
import math
import re


class Unsupported(Exception):
    """Construct outside the modelled subset (harness error)."""


class Stop(Exception):
    """Fortran STOP."""


class Goto(Exception):
    def __init__(self, label):
        self.label = label


class MemError(Exception):
    """Memory-safety violation under the heap model."""


# ---------------------------------------------------------------------------
# lexer / parser

TOK = re.compile(r"""
   (?P<ws>\s+)
 | (?P<num>(\d+\.\d*|\.\d+|\d+)([deDE][+-]?\d+)?)
 | (?P<dotop>\.(and|or|not|eq|ne|lt|le|gt|ge|true|false|eqv|neqv)\.)
 | (?P<name>[A-Za-z_][A-Za-z0-9_]*)
 | (?P<str>'([^']|'')*'|"([^"]|"")*")
 | (?P<op>\*\*|=>|==|/=|<=|>=|//|::|\(/|/\)|[-+*/<>=(),%:])
""", re.X | re.I)


def strip_comment(ln):
    q = None
    for i, c in enumerate(ln):
        if q:
            if c == q:
                q = None
        elif c in "'\"":
            q = c
        elif c == "!":
            return ln[:i]
    return ln


def logical_lines(text):
    out = []
    cur = ""
    for raw in text.split("\n"):
        if raw.startswith("#"):
            raise Unsupported("preprocessor line %r" % raw)
        ln = strip_comment(raw).rstrip()
        if not ln.strip():
            continue
        s = ln.strip()
        if s.startswith("&"):
            s = s[1:].lstrip()
        if s.endswith("&"):
            cur += s[:-1].rstrip() + " "
            continue
        cur += s
        out.append(cur)
        cur = ""
    if cur:
        raise Unsupported("dangling continuation")
    return out


def tokenize(s):
    pos = 0
    toks = []
    while pos < len(s):
        m = TOK.match(s, pos)
        if not m:
            raise Unsupported("cannot tokenize %r at %r" % (s, s[pos:pos + 20]))
        pos = m.end()
        k = m.lastgroup
        if k == "ws":
            continue
        v = m.group(k)
        toks.append((k, v.lower() if k in ("name", "dotop") else v))
    return toks


BIN = {".or.": 1, ".and.": 2, "==": 4, "/=": 4, "<": 4, "<=": 4, ">": 4, ">=": 4, ".eq.": 4, ".ne.": 4,
       ".lt.": 4, ".le.": 4, ".gt.": 4, ".ge.": 4, "+": 6, "-": 6, "*": 7, "/": 7, "**": 9}


class P:
    def __init__(self, toks):
        self.t = toks
        self.i = 0

    def peek(self):
        return self.t[self.i] if self.i < len(self.t) else (None, None)

    def next(self):
        x = self.peek()
        self.i += 1
        return x

    def expect(self, v):
        k, x = self.next()
        if x != v:
            raise Unsupported("expected %r got %r in %r" % (v, x, self.t))

    def expr(self, minp=0):
        k, v = self.peek()
        if v == ".not.":
            self.next()
            lhs = ("not", self.expr(3))
        elif v in ("-", "+"):
            self.next()
            # unary minus: lower than ** and *, /  (Fortran: -a**b == -(a**b), -a*b == -(a*b))
            lhs = ("neg" if v == "-" else "pos", self.expr(7))
        else:
            lhs = self.primary()
        while True:
            k, v = self.peek()
            if v in BIN and BIN[v] >= minp:
                p = BIN[v]
                self.next()
                rhs = self.expr(p if v == "**" else p + 1)
                lhs = ("bin", v, lhs, rhs)
            else:
                return lhs

    def primary(self):
        k, v = self.next()
        if k == "num":
            return ("num", v)
        if k == "str":
            return ("str", v)
        if v in (".true.", ".false."):
            return ("bool", v == ".true.")
        if v == "(":
            e = self.expr()
            if self.peek()[1] == ",":
                # complex literal (re, im)
                self.next()
                im = self.expr()
                self.expect(")")
                return ("cmplx", e, im)
            self.expect(")")
            return ("paren", e)
        if k == "name":
            ref = ("name", v)
            while True:
                k2, v2 = self.peek()
                if v2 == "(":
                    self.next()
                    args = []
                    if self.peek()[1] != ")":
                        while True:
                            args.append(self.arg())
                            if self.peek()[1] == ",":
                                self.next()
                                continue
                            break
                    self.expect(")")
                    ref = ("app", ref, args)
                elif v2 == "%":
                    self.next()
                    k3, v3 = self.next()
                    if k3 != "name":
                        raise Unsupported("component name")
                    ref = ("comp", ref, v3)
                else:
                    return ref
        raise Unsupported("bad primary %r in %r" % (v, self.t))

    def arg(self):
        if self.peek()[0] == "name" and self.i + 1 < len(self.t) and self.t[self.i + 1][1] == "=":
            n = self.next()[1]
            self.next()
            return ("kw", n, self.expr())
        if self.peek()[1] == ":":
            self.next()
            return ("slice", None, None)
        e = self.expr()
        if self.peek()[1] == ":":
            self.next()
            hi = self.expr()
            return ("slice", e, hi)
        return e


TYPEWORDS = ("integer", "real", "logical", "complex", "character", "type", "double")


def parse_stmt(line):
    toks = tokenize(line)
    vals = [v for k, v in toks]
    k0, v0 = toks[0]

    def rest_expr(ts):
        p = P(ts)
        e = p.expr()
        if p.i != len(ts):
            raise Unsupported("trailing tokens in %r" % line)
        return e
    if k0 == "num":
        if v0 != "999" or vals[1:] != ["continue"]:
            raise Unsupported("label %r" % line)
        return ("label", 999)
    if v0 in ("module", "contains", "implicit", "use", "private", "public", "save"):
        return ("decl_misc", vals)
    if v0 == "end":
        return ("end", vals[1] if len(vals) > 1 else None)
    if v0 == "endif":
        return ("end", "if")
    if v0 == "enddo":
        return ("end", "do")
    if v0 == "else":
        if len(vals) > 1 and vals[1] == "if":
            if vals[-1] != "then":
                raise Unsupported(line)
            return ("elseif", rest_expr(toks[2:-1]))
        return ("else",)
    if v0 == "if":
        depth = 0
        j = None
        for j, (k, v) in enumerate(toks[1:], 1):
            if v == "(":
                depth += 1
            elif v == ")":
                depth -= 1
                if depth == 0:
                    break
        cond = rest_expr(toks[2:j])
        tail = toks[j + 1:]
        if [v for k, v in tail] == ["then"]:
            return ("if", cond)
        return ("ifstmt", cond, parse_stmt_toks(tail, line))
    return parse_stmt_toks(toks, line)


def parse_stmt_toks(toks, line):
    vals = [v for k, v in toks]
    v0 = vals[0]
    if v0 == "subroutine":
        p = P(toks[1:])
        return ("subroutine", p.primary())
    if v0 == "parameter":
        p = P(toks[2:-1])
        n = p.next()[1]
        p.expect("=")
        return ("parameter", n, p.expr())
    if v0 == "type" and len(vals) > 1 and vals[1] != "(":
        return ("typedef", vals[1])
    if v0 in TYPEWORDS:
        return ("decl", line)
    if v0 == "do":
        p = P(toks[1:])
        v = p.next()[1]
        p.expect("=")
        lo = p.expr()
        p.expect(",")
        hi = p.expr()
        if p.i != len(toks) - 1:
            raise Unsupported("do with stride %r" % line)
        return ("do", v, lo, hi)
    if v0 == "goto":
        return ("goto", int(vals[1]))
    if v0 == "go" and vals[1] == "to":
        return ("goto", int(vals[2]))
    if v0 == "stop":
        return ("stop",)
    if v0 == "call":
        p = P(toks[1:])
        return ("call", p.primary())
    if v0 in ("write", "read"):
        return (v0, line)
    if v0 in ("allocate", "deallocate", "nullify"):
        p = P(toks)
        ref = p.primary()
        return (v0, ref[2])
    if v0 == "continue":
        return ("continue",)
    if v0 == "return":
        return ("return",)
    p = P(toks)
    lhs = p.primary()
    k, op = p.next()
    if op not in ("=", "=>"):
        raise Unsupported("unknown statement %r" % line)
    rhs = p.expr()
    if p.i != len(toks):
        raise Unsupported("trailing tokens in %r" % line)
    return ("assign" if op == "=" else "ptrassign", lhs, rhs)


DECL = re.compile(r"^(?P<base>integer|logical|character|double\s+precision|real\s*(\*\s*\d+|\(\s*kind\s*=\s*\d+\s*\))?|"
                  r"complex\s*(\*\s*\d+|\(\s*kind\s*=\s*\d+\s*\))?|type\s*\(\s*\w+\s*\))"
                  r"(?P<attrs>(\s*,\s*\w+(\s*\([^)]*\))?)*)\s*(::)?\s*(?P<names>.+)$", re.I)


def parse_decl(line):
    m = DECL.match(line.strip())
    if not m:
        raise Unsupported("declaration %r" % line)
    base = m.group("base").lower().replace(" ", "")
    if base.startswith("integer"):
        typ = "int"
    elif base.startswith(("real", "double")):
        typ = "real"
    elif base.startswith("logical"):
        typ = "logical"
    elif base.startswith("char"):
        typ = "char"
    elif base.startswith("complex"):
        typ = "complex"
    else:
        typ = base
    attrs = [a.group(0).lstrip(", ").lower().replace(" ", "")
             for a in re.finditer(r",\s*\w+(\s*\([^)]*\))?", m.group("attrs") or "")]
    names = []
    for n in re.split(r",(?![^()]*\))", m.group("names")):
        n = n.strip()
        dim = None
        mm = re.match(r"^(\w+)\s*\(([^)]*)\)$", n)
        if mm:
            n, dim = mm.group(1), mm.group(2)
        n = n.split("*")[0].strip().lower()
        names.append((n, dim))
    return typ, attrs, names


class Module:
    def __init__(self, text):
        self.params = {}
        self.subs = {}
        self.typefields = {}
        self.nlines = 0
        stmts = []
        for l in logical_lines(text):
            stmts.append(parse_stmt(l))
            self.nlines += 1
        i = 0
        intype = None
        while i < len(stmts):
            s = stmts[i]
            i += 1
            if s[0] == "typedef":
                intype = s[1]
                self.typefields[intype] = []
                continue
            if s[0] == "end" and s[1] == "type":
                intype = None
                continue
            if intype and s[0] == "decl":
                self.typefields[intype].append(parse_decl(s[1]))
                continue
            if s[0] == "decl":
                continue
            if s[0] == "parameter":
                self.params[s[1]] = s[2]
                continue
            if s[0] == "subroutine":
                ref = s[1]
                name = ref[1][1] if ref[0] == "app" else ref[1]
                args = [a[1] for a in (ref[2] if ref[0] == "app" else [])]
                body, i = self.block(stmts, i, ("subroutine",))
                decls = [parse_decl(b[1]) for b in body if b[0] == "decl"]
                self.subs[name] = (args, decls, [b for b in body if b[0] not in ("decl", "decl_misc")])

    def block(self, stmts, i, enders):
        out, i, how = self._block(stmts, i, enders)
        return out, i

    def _block(self, stmts, i, enders):
        """Returns (statements, next index, how): how == "end" when the block was closed by its END (index past it),
        "arm" when it stopped AT an else / else if of the enclosing if block."""
        out = []
        while True:
            if i >= len(stmts):
                raise Unsupported("unterminated block")
            s = stmts[i]
            i += 1
            if s[0] == "end" and s[1] in enders:
                return out, i, "end"
            if s[0] in ("else", "elseif") and "if" in enders:
                return out, i - 1, "arm"
            if s[0] == "if":
                arms = []
                cond = s[1]
                while True:
                    body, i, how = self._block(stmts, i, ("if",))
                    arms.append((cond, body))
                    if how == "end":
                        break
                    nxt = stmts[i]
                    cond = nxt[1] if nxt[0] == "elseif" else None
                    i += 1
                out.append(("ifblock", arms))
            elif s[0] == "do":
                body, i, _ = self._block(stmts, i, ("do",))
                out.append(("doblock", s[1], s[2], s[3], body))
            else:
                out.append(s)


# ---------------------------------------------------------------------------
# run-time objects

class _Undef:
    """Association status of a pointer that was never nullified, allocated
    or pointer-assigned: undefined (neither associated nor disassociated)."""

    def __repr__(self):
        return "UNDEFINED-POINTER"


UNDEF = _Undef()


class Cell:
    """A variable slot (argument association is by reference: cells are
    shared)."""

    def __init__(self, typ, attrs, val=None, dim=None):
        self.typ = typ
        self.attrs = attrs
        self.val = val
        self.present = True
        self.dim = dim
        if val is None and "pointer" in attrs:
            self.val = UNDEF

    @property
    def is_array(self):
        return self.dim is not None or any(a.startswith("dimension") for a in self.attrs)

    @property
    def is_pointer(self):
        return "pointer" in self.attrs

    @property
    def is_allocatable(self):
        return "allocatable" in self.attrs


class Block:
    """Heap block (array storage or a scalar target)."""
    counter = 0

    def __init__(self, kind, lo=1, data=None, where=None):
        Block.counter += 1
        self.id = Block.counter
        self.kind = kind
        self.live = True
        self.lo = lo
        self.data = data
        self.where = where


class Struct:
    def __init__(self, fields):
        self.f = fields


class Machine:
    def __init__(self, mod, ops, check_uninit=True):
        self.m = mod
        self.ops = ops
        self.err = []
        self.out = []
        self.blocks = []
        self.check_uninit = check_uninit
        self.steps = 0
        self.max_steps = 200000

    # -- construction ----------------------------------------------------
    def new_cell(self, typ, attrs, dim=None):
        c = Cell(typ, attrs, None, dim)
        if typ.startswith("type(") and not c.is_pointer:
            c.val = self.new_struct(typ[5:-1])
        if dim is not None and not c.is_pointer and not c.is_allocatable and dim.strip() != ":":
            # explicit-shape local array
            n = self.ops.toindex(self.ev(P(tokenize(dim)).expr(), {}))
            c.val = Block("auto", 1, [None] * n)
        return c

    def new_struct(self, tname):
        f = {}
        for typ, attrs, names in self.m.typefields[tname]:
            for n, dim in names:
                f[n] = self.new_cell(typ, attrs, dim)
        return Struct(f)

    # -- references ------------------------------------------------------
    def ref(self, e, fr):
        if e[0] == "paren":
            return self.ref(e[1], fr)
        if e[0] == "name":
            if e[1] in fr:
                return fr[e[1]]
            raise Unsupported("reference to unknown name %s" % e[1])
        if e[0] == "comp":
            base = self.ref(e[1], fr)
            st = self.deref_struct(base)
            if e[2] not in st.f:
                raise Unsupported("unknown component %s" % e[2])
            return st.f[e[2]]
        raise Unsupported("reference %r" % (e,))

    def deref_struct(self, cell):
        v = cell.val
        if v is UNDEF:
            raise MemError("use of a structure pointer whose association status is undefined")
        if isinstance(v, Block):
            if not v.live:
                raise MemError("use of freed structure")
            return v.data
        if v is None:
            raise MemError("use of unassociated structure pointer")
        return v

    def array_of(self, cell, what="use"):
        v = cell.val
        if v is UNDEF:
            raise MemError("%s through a pointer whose association status is undefined (never nullified)" % what)
        if v is None:
            raise MemError("%s of unassociated/unallocated storage" % what)
        if not isinstance(v, Block):
            raise Unsupported("array_of non-block")
        if not v.live:
            raise MemError("%s of freed storage (block %d allocated at %s)" % (what, v.id, v.where))
        return v

    # -- expressions -----------------------------------------------------
    def ev(self, e, fr):
        k = e[0]
        o = self.ops
        if k == "paren":
            return self.ev(e[1], fr)
        if k == "num":
            s = e[1].lower()
            if re.search(r"[.de]", s):
                if "_" in s:
                    raise Unsupported("kind suffix on a real literal: %s" % s)
                # a real literal without a d exponent is of DEFAULT (single) precision in Fortran: its value is the
                # nearest binary32 number (1e-05 is 9.99999974737875e-06); with a d exponent it is double precision
                return o.real_literal(s.replace("d", "e"), single="d" not in s)
            return int(s)
        if k == "bool":
            return e[1]
        if k == "str":
            return e[1][1:-1]
        if k == "cmplx":
            raise Unsupported("complex literal")
        if k == "name":
            if e[1] in fr:
                return self.cell_value(fr[e[1]], e[1])
            if e[1] in self.m.params:
                return self.ev(self.m.params[e[1]], {})
            raise Unsupported("unknown name %s" % e[1])
        if k == "comp":
            return self.cell_value(self.ref(e, fr), repr(e))
        if k == "neg":
            return self.unop("neg", self.ev(e[1], fr))
        if k == "pos":
            return self.ev(e[1], fr)
        if k == "not":
            return o.lnot(self.ev(e[1], fr))
        if k == "bin":
            op = e[1]
            if op == ".and.":
                return o.land(self.ev(e[2], fr), self.ev(e[3], fr))
            if op == ".or.":
                return o.lor(self.ev(e[2], fr), self.ev(e[3], fr))
            return self.binop(op, self.ev(e[2], fr), self.ev(e[3], fr))
        if k == "app":
            f = e[1]
            if f[0] == "name" and f[1] not in fr:
                return self.intrinsic(f[1], e[2], fr)
            cell = self.ref(f, fr)
            arr = self.array_of(cell, "element read")
            if len(e[2]) != 1:
                raise Unsupported("rank > 1")
            if e[2][0][0] == "slice":
                if e[2][0][1] is None:
                    return arr
                raise Unsupported("array section")
            return self.load(arr, self.ev(e[2][0], fr))
        raise Unsupported("expression %r" % (e,))

    def cell_value(self, c, name):
        if c.is_array:
            return self.array_of(c, "read")
        if c.is_pointer and c.typ in ("int", "real", "logical"):
            b = self.array_of(c, "dereference")
            v = b.data[0]
            if v is None:
                raise MemError("read of uninitialised pointer target %s" % name)
            return v
        if not c.present:
            raise MemError("reference to absent optional argument %s" % name)
        if c.val is None:
            # an undefined scalar holds an arbitrary value of its type
            return self.ops.undefined(c.typ, name)
        return c.val

    def unop(self, op, a):
        if isinstance(a, Block):
            return Block("tmp", a.lo, [self.unop(op, x) for x in self.elements(a)])
        return self.ops.neg(a)

    def elements(self, b):
        out = []
        for x in b.data:
            if x is None:
                raise MemError("read of uninitialised array element")
            out.append(x)
        return out

    def binop(self, op, a, b):
        if isinstance(a, Block) or isinstance(b, Block):
            if isinstance(a, Block) and isinstance(b, Block) and len(a.data) != len(b.data):
                raise MemError("array shape mismatch %d vs %d" % (len(a.data), len(b.data)))
            n = len(a.data) if isinstance(a, Block) else len(b.data)
            lo = a.lo if isinstance(a, Block) else b.lo
            ea = self.elements(a) if isinstance(a, Block) else None
            eb = self.elements(b) if isinstance(b, Block) else None
            return Block("tmp", lo, [self.ops.bin(op, ea[i] if ea is not None else a, eb[i] if eb is not None else b)
                                     for i in range(n)])
        return self.ops.bin(op, a, b)

    def load(self, arr, idx):
        i = self.ops.toindex(idx) - arr.lo
        if not (0 <= i < len(arr.data)):
            raise MemError("index %d out of bounds (size %d)" % (i + arr.lo, len(arr.data)))
        v = arr.data[i]
        if v is None:
            if self.check_uninit:
                raise MemError("read of uninitialised array element")
            return self.ops.undefined("real", "elem")
        return v

    def intrinsic(self, name, args, fr):
        o = self.ops
        if name == "present":
            return self.ref(args[0], fr).present
        if name in ("associated", "allocated"):
            c = self.ref(args[0], fr)
            if c.val is UNDEF:
                raise MemError("associated() of a pointer whose association status is undefined (never nullified)")
            return c.val is not None
        vals = [self.ev(a, fr) for a in args]
        if name == "int":
            return o.toint(vals[0])
        if name in ("real", "dble"):
            return o.real(vals[0])
        if name == "abs":
            if isinstance(vals[0], Block):
                return Block("tmp", vals[0].lo, [o.abs(x) for x in self.elements(vals[0])])
            return o.abs(vals[0])
        if name == "sqrt":
            return o.sqrt(vals[0])
        if name == "size":
            return len(vals[0].data)
        if name == "norm2":
            return o.norm2(self.elements(vals[0]))
        if name in ("min", "max"):
            return o.minmax(name, vals)
        if name in ("isnan",):
            return o.isnan(vals[0])
        raise Unsupported("intrinsic %s" % name)

    # -- statements ------------------------------------------------------
    def call(self, name, actual_cells):
        if name not in self.m.subs:
            raise Unsupported("call of unknown subroutine %s" % name)
        args, decls, body = self.m.subs[name]
        if len(actual_cells) != len(args):
            raise Unsupported("argument count mismatch calling %s" % name)
        fr = {}
        for a, c in zip(args, actual_cells):
            fr[a] = c
        for typ, attrs, names in decls:
            for n, dim in names:
                if n in fr:
                    c = fr[n]
                    is_arr = dim is not None or any(x.startswith("dimension") for x in attrs)
                    if is_arr and "pointer" not in attrs and "allocatable" not in attrs and c.present:
                        # assumed-shape dummy associated with a pointer actual: the target must exist
                        tgt = self.array_of(c, "argument association")
                        fr[n] = Cell(typ, attrs, tgt, dim)
                    elif "pointer" not in attrs and c.is_pointer and not is_arr and c.present and c.typ in ("int", "real", "logical"):
                        tgt = self.array_of(c, "argument association")
                        view = Cell(typ, ["pointer"], tgt)
                        fr[n] = view
                    continue
                fr[n] = self.new_cell(typ, attrs, dim)
        for a in args:
            if a not in fr:
                raise Unsupported("undeclared dummy %s" % a)
        try:
            self.run(body, fr)
        except Goto as g:
            if g.label != 999 or ("label", 999) not in body:
                raise Unsupported("goto %s" % g.label)
            # continue after the label
            idx = body.index(("label", 999))
            try:
                self.run(body[idx + 1:], fr)
            except Goto:
                raise Unsupported("goto after the exit label")
        except ReturnStmt:
            pass
        for n, c in fr.items():
            if n not in args and c.is_allocatable and isinstance(c.val, Block) and c.val.live:
                c.val.live = False     # automatic deallocation of allocatable locals

    def run(self, body, fr):
        for s in body:
            self.step(s, fr)

    def step(self, s, fr):
        self.steps += 1
        if self.steps > self.max_steps:
            raise Unsupported("step budget exceeded")
        k = s[0]
        if k == "assign":
            return self.assign(s[1], s[2], fr)
        if k == "ptrassign":
            src = self.ref(s[2], fr)
            dst = self.ref(s[1], fr)
            if not dst.is_pointer:
                raise Unsupported("pointer assignment to non-pointer")
            dst.val = src.val
            return
        if k == "ifblock":
            for cond, body in s[1]:
                if cond is None or self.ops.truth(self.ev(cond, fr)):
                    return self.run(body, fr)
            return
        if k == "ifstmt":
            if self.ops.truth(self.ev(s[1], fr)):
                self.step(s[2], fr)
            return
        if k == "doblock":
            lo = self.ops.toindex(self.ev(s[2], fr))
            hi = self.ops.toindex(self.ev(s[3], fr))
            c = fr[s[1]]
            i = lo
            while i <= hi:
                c.val = i
                self.run(s[4], fr)
                i += 1
            c.val = i
            return
        if k == "goto":
            raise Goto(s[1])
        if k in ("label", "continue"):
            return
        if k == "return":
            raise ReturnStmt()
        if k == "stop":
            raise Stop()
        if k == "write":
            (self.err if "dagrt_stderr" in s[1] else self.out).append(s[1])
            return
        if k == "read":
            if "dagrt_nan" not in s[1]:
                raise Unsupported("read statement")
            fr["dagrt_nan"].val = self.ops.nan()
            return
        if k == "call":
            ref = s[1]
            name = ref[1][1] if ref[0] == "app" else ref[1]
            cells = []
            for a in (ref[2] if ref[0] == "app" else []):
                if a[0] == "kw":
                    raise Unsupported("keyword argument in generated call")
                if a[0] in ("name", "comp") and (a[0] == "comp" or a[1] in fr):
                    cells.append(self.ref(a, fr))
                else:
                    v = self.ev(a, fr)
                    cells.append(Cell("tmp", ["dimension(:)"] if isinstance(v, Block) else [], v))
            return self.call(name, cells)
        if k == "allocate":
            a = s[1][0]
            if a[0] == "app":
                c = self.ref(a[1], fr)
                d = a[2][0]
                if d[0] == "slice":
                    lo = self.ops.toindex(self.ev(d[1], fr))
                    hi = self.ops.toindex(self.ev(d[2], fr))
                else:
                    lo = 1
                    hi = self.ops.toindex(self.ev(d, fr))
                b = Block("arr", lo, [None] * max(0, hi - lo + 1), where=self.where(s))
            else:
                c = self.ref(a, fr)
                b = Block("scalar", 1, [None], where=self.where(s))
            if c.is_allocatable and c.val is not None and c.val is not UNDEF:
                raise MemError("allocate of an already allocated allocatable")
            c.val = b
            self.blocks.append(b)
            for extra in s[1][1:]:
                if extra[0] == "kw" and extra[1] == "stat":
                    self.ref(extra[2], fr).val = 0
            return
        if k == "deallocate":
            c = self.ref(s[1][0], fr)
            if c.val is UNDEF:
                raise MemError("deallocate through a pointer whose association status is undefined")
            if c.val is None:
                raise MemError("deallocate of unassociated pointer")
            if not c.val.live:
                raise MemError("double free of block %d (allocated at %s)" % (c.val.id, c.val.where))
            c.val.live = False
            if c.is_allocatable:
                c.val = None
            return
        if k == "nullify":
            self.ref(s[1][0], fr).val = None
            return
        raise Unsupported("statement %r" % (s,))

    def where(self, s):
        return str(s[1][0])[:60]

    def assign(self, lhs, rhs, fr):
        v = self.ev(rhs, fr)
        if lhs[0] == "app":
            cell = self.ref(lhs[1], fr)
            arr = self.array_of(cell, "element write")
            if lhs[2][0][0] == "slice":
                if lhs[2][0][1] is not None:
                    raise Unsupported("array section write")
                return self.store_whole(arr, v, cell.typ)
            i = self.ops.toindex(self.ev(lhs[2][0], fr)) - arr.lo
            if not (0 <= i < len(arr.data)):
                raise MemError("index %d out of bounds on write (size %d)" % (i + arr.lo, len(arr.data)))
            arr.data[i] = self.coerce(v, cell.typ)
            return
        c = self.ref(lhs, fr)
        if c.is_array:
            arr = self.array_of(c, "write")
            return self.store_whole(arr, v, c.typ)
        if c.is_pointer and c.typ in ("int", "real", "logical"):
            self.array_of(c, "write through pointer").data[0] = self.coerce(v, c.typ)
            return
        if isinstance(v, Block):
            raise Unsupported("array value assigned to scalar")
        c.val = self.coerce(v, c.typ)

    def store_whole(self, arr, v, typ):
        if isinstance(v, Block):
            if len(v.data) != len(arr.data):
                raise MemError("array assignment shape mismatch %d <- %d" % (len(arr.data), len(v.data)))
            arr.data[:] = [self.coerce(x, typ) for x in self.elements(v)]
        else:
            arr.data[:] = [self.coerce(v, typ)] * len(arr.data)

    def coerce(self, v, typ):
        if typ == "real":
            return self.ops.real(v)
        if typ == "int":
            return self.ops.toint(v)
        if typ == "logical":
            return v
        if typ in ("tmp",):
            return v
        if typ == "complex":
            raise Unsupported("complex variables")
        return v

    def leaked(self):
        return [b for b in self.blocks if b.live]


class ReturnStmt(Exception):
    pass


# ---------------------------------------------------------------------------
# ops

class FloatOps:
    """Plain IEEE doubles / Python ints: used for the conformance run against
    gfortran."""

    def real_literal(self, s, single=False):
        if single:
            import numpy as np
            with np.errstate(over="ignore"):
                v = float(np.float32(float(s)))
            if v in (float("inf"), float("-inf")):
                raise Unsupported("single-precision literal %s overflows its kind (gfortran rejects the module)" % s)
            return v
        return float(s)

    def real(self, v):
        return float(v) if not isinstance(v, bool) else v

    def toint(self, v):
        return int(v)

    def toindex(self, v):
        return int(v)

    def neg(self, v):
        return -v

    def lnot(self, v):
        return not v

    def land(self, a, b):
        return bool(a) and bool(b)

    def lor(self, a, b):
        return bool(a) or bool(b)

    def truth(self, v):
        return bool(v)

    def abs(self, v):
        return abs(v)

    def sqrt(self, v):
        return math.sqrt(v)

    def norm2(self, xs):
        return math.sqrt(sum(x * x for x in xs))

    def minmax(self, n, xs):
        return min(xs) if n == "min" else max(xs)

    def nan(self):
        return float("nan")

    def isnan(self, v):
        return v != v

    def undefined(self, typ, name):
        return 0.0

    def bin(self, op, a, b):
        if op == "+":
            return a + b
        if op == "-":
            return a - b
        if op == "*":
            return a * b
        if op == "/":
            if isinstance(a, int) and isinstance(b, int):
                q = abs(a) // abs(b)
                return q if (a >= 0) == (b > 0) else -q
            try:
                return a / b
            except ZeroDivisionError:
                # IEEE semantics, as the compiled program has them
                if a != a or a == 0:
                    return float("nan")
                return math.copysign(float("inf"), a) * math.copysign(1.0, b)
        if op == "**":
            try:
                return a ** b
            except OverflowError:
                return float("inf")
            except ZeroDivisionError:
                return float("inf")
        if op in ("==", ".eq."):
            return a == b
        if op in ("/=", ".ne."):
            return a != b
        if op in ("<", ".lt."):
            return a < b
        if op in ("<=", ".le."):
            return a <= b
        if op in (">", ".gt."):
            return a > b
        if op in (">=", ".ge."):
            return a >= b
        raise Unsupported("operator %s" % op)


class SymOps:
    """z3 proxies: reals exact (z3 Real), integers exact, guards fork via the
    active symx explorer."""

    def __init__(self):
        import z3
        from vf import symx
        self.z3 = z3
        self.symx = symx

    def _is_int(self, v):
        if isinstance(v, bool):
            return False
        if isinstance(v, int):
            return True
        return isinstance(v, self.symx.SymNum) and v.is_int

    def real_literal(self, s, single=False):
        from fractions import Fraction
        if single:
            import numpy as np
            with np.errstate(over="ignore"):
                v = float(np.float32(float(s)))
            if v in (float("inf"), float("-inf")):
                raise Unsupported("single-precision literal %s overflows its kind (gfortran rejects the module)" % s)
            return self.symx.SymNum(self.z3.RealVal(str(Fraction(v))))
        return self.symx.SymNum(self.z3.RealVal(str(Fraction(float(s)))))      # the exact binary64 value of a double-precision literal

    def real(self, v):
        z3, S = self.z3, self.symx
        if isinstance(v, (bool, S.SymBool)):
            return v
        if isinstance(v, int):
            return S.SymNum(z3.RealVal(v))
        if isinstance(v, float):
            from fractions import Fraction
            if v != v:
                return S.SymNum(z3.Real("NaN"))
            return S.SymNum(z3.RealVal(str(Fraction(v))))
        if isinstance(v, S.SymNum):
            return v if not v.is_int else S.SymNum(z3.ToReal(v.t))
        raise Unsupported("real(%r)" % (v,))

    def toint(self, v):
        z3, S = self.z3, self.symx
        if isinstance(v, int):
            return v
        if isinstance(v, S.SymNum):
            if v.is_int:
                return v
            t = z3.simplify(v.t)
            if z3.is_rational_value(t):
                from fractions import Fraction
                fr = Fraction(t.numerator_as_long(), t.denominator_as_long())
                return int(fr)     # truncation toward zero
            return S.SymNum(z3.If(v.t >= 0, z3.ToInt(v.t), -z3.ToInt(-v.t)))
        raise Unsupported("int(%r)" % (v,))

    def toindex(self, v):
        if isinstance(v, int):
            return v
        return self.symx.realize_int(self.toint(v))

    def neg(self, v):
        return -v

    def lnot(self, v):
        S = self.symx
        if isinstance(v, S.SymBool):
            return S.SymBool(self.z3.Not(v.t))
        return not v

    def land(self, a, b):
        S = self.symx
        return S.SymBool(self.z3.And(S.lift_bool(a), S.lift_bool(b)))

    def lor(self, a, b):
        S = self.symx
        return S.SymBool(self.z3.Or(S.lift_bool(a), S.lift_bool(b)))

    def truth(self, v):
        return bool(v)

    def abs(self, v):
        return abs(v)

    def sqrt(self, v):
        S = self.symx
        return S.SymNum(S.uf("sqrtr", S.REAL, S.REAL)(self.real(v).t))

    def norm2(self, xs):
        acc = self.real(0)
        for x in xs:
            acc = acc + self.bin("**", self.abs(self.real(x)), 2)
        return self.sqrt(acc)

    def minmax(self, n, xs):
        r = xs[0]
        for x in xs[1:]:
            c = self.bin("<" if n == "min" else ">", x, r)
            r = self._ite(c, x, r)
        return r

    def _ite(self, c, a, b):
        S, z3 = self.symx, self.z3
        a, b = self.real(a), self.real(b)
        return S.SymNum(z3.If(S.lift_bool(c), a.t, b.t))

    def nan(self):
        return self.symx.SymNum(self.z3.Real("NaN"))

    def isnan(self, v):
        raise Unsupported("isnan in the real-number model")

    def undefined(self, typ, name):
        """An undefined scalar: an arbitrary (fresh, unconstrained) value of
        its type -- whatever is computed must not depend on it."""
        z3, S = self.z3, self.symx
        nm = S.cur().fresh("undef_" + re.sub(r"[^A-Za-z0-9_]", "_", name))
        if typ == "logical":
            return S.SymBool(z3.Bool(nm))
        if typ == "int":
            return S.SymNum(z3.Int(nm))
        return S.SymNum(z3.Real(nm))

    def bin(self, op, a, b):
        S, z3 = self.symx, self.z3
        if isinstance(a, (bool, S.SymBool)) or isinstance(b, (bool, S.SymBool)):
            if op in ("==", ".eq.", ".eqv."):
                return S.SymBool(S.lift_bool(a) == S.lift_bool(b))
            if op in ("/=", ".ne.", ".neqv."):
                return S.SymBool(S.lift_bool(a) != S.lift_bool(b))
            raise Unsupported("arithmetic on logicals")
        ints = self._is_int(a) and self._is_int(b)
        if ints and isinstance(a, int) and isinstance(b, int):
            return FloatOps.bin(FloatOps(), op, a, b)
        if ints:
            ta, tb = S.lift(a), S.lift(b)
            if op == "/":
                absdiv = z3.If(ta >= 0, ta, -ta) / z3.If(tb >= 0, tb, -tb)
                return S.SymNum(z3.If((ta >= 0) == (tb > 0), absdiv, -absdiv))
            if op == "**":
                return S.SymNum(S.uf("powi", S.INT, S.INT, S.INT)(ta, tb))
            x, y = S.SymNum(ta), S.SymNum(tb)
        else:
            x, y = self.real(a), self.real(b)
            if op == "**":
                return S.SymNum(S.real_pow(x.t, y.t))
        if op == "+":
            return x + y
        if op == "-":
            return x - y
        if op == "*":
            return x * y
        if op == "/":
            return x / y
        if op in ("==", ".eq."):
            return x == y
        if op in ("/=", ".ne."):
            return x != y
        if op in ("<", ".lt."):
            return x < y
        if op in ("<=", ".le."):
            return x <= y
        if op in (">", ".gt."):
            return x > y
        if op in (">=", ".ge."):
            return x >= y
        raise Unsupported("operator %s" % op)


# ---------------------------------------------------------------------------
# driving a generated module

class Stepper:
    """initialize / run / shutdown of a generated module under a Machine."""

    def __init__(self, text, ops, check_uninit=True):
        self.mod = Module(text)
        self.M = Machine(self.mod, ops, check_uninit=check_uninit)
        self.state = self.M.new_struct("dagrt_state_type")
        self.state_cell = Cell("type(dagrt_state_type)", ["pointer"], self.state)   # allocated by the driver

    def initialize(self, **kw):
        args, decls, body = self.mod.subs["initialize"]
        cells = []
        ops = self.M.ops
        for a in args:
            if a == "dagrt_state":
                cells.append(self.state_cell)
                continue
            if a in kw:
                v = kw[a]
                if isinstance(v, (list, tuple)):
                    c = Cell("real", ["dimension(:)"], Block("actual", 1, [ops.real(x) for x in v]))
                else:
                    c = Cell("real", [], ops.real(v))
            else:
                c = Cell("real", [], None)
                c.present = False
            cells.append(c)
        unknown = set(kw) - set(args)
        if unknown:
            raise Unsupported("initialize has no arguments %s (has %s)" % (sorted(unknown), args))
        self.M.call("initialize", cells)

    def run(self):
        self.M.call("run", [self.state_cell])

    def shutdown(self):
        self.M.call("shutdown", [self.state_cell])

    def field(self, name):
        c = self.state.f[name]
        v = c.val
        if v is UNDEF:
            return None
        if isinstance(v, Block):
            if not v.live:
                return "FREED"
            if c.is_array:
                return list(v.data)
            return v.data[0]
        return v

    def param(self, name):
        return self.M.ev(self.mod.params[name], {})
