"""Ranked containers: iteration order of sets as a symbolic input.

RankedFS / RankedSet are frozenset / set subclasses whose __iter__ yields the
elements sorted by a symbolic rank (one z3 Int per distinct element key, all
distinct per universe).  Comparing two ranks forks, so every distinguishable
iteration order is one path; one rank assignment plays the role of one
PYTHONHASHSEED / memory layout.  Orders not expressible as a single global
rank (CPython's table layout can order two sets inconsistently) are outside
the claim."""
import builtins

import z3

from vf import symx

_fs = builtins.frozenset
_s = builtins.set

MODE = {"mode": "symbolic", "perm": None}   # "symbolic" | "concrete" (key function)
_RANKS = {}
_PAIR_ASSUMED = set()


def reset():
    _RANKS.clear()
    _PAIR_ASSUMED.clear()


def elem_key(x):
    if isinstance(x, str):
        return "s:" + x
    i = getattr(x, "id", None)
    if isinstance(i, str):
        return "id:" + i
    n = getattr(x, "name", None)
    if isinstance(n, str):
        return "n:%s:%s" % (type(x).__name__, n)
    if isinstance(x, tuple):
        return "t:" + ",".join(elem_key(e) for e in x)
    return "r:" + repr(x)


def rank_of(x):
    k = elem_key(x)
    r = _RANKS.get(k)
    if r is None:
        r = z3.Int("rank[%s]" % k)
        _RANKS[k] = r
    return r


# elements for which FIXED(key) is true keep a concrete (sorted-by-key) order:
# lets a harness make one universe symbolic at a time
FIXED = {"pred": None}


def less(a, b):
    """Symbolic comparison of ranks (forks).  Ranks of different elements
    are distinct."""
    ka, kb = elem_key(a), elem_key(b)
    if ka == kb:
        return False
    f = FIXED["pred"]
    if f is not None:
        fa, fb = f(ka), f(kb)
        if fa and fb:
            return ka < kb
        if fa != fb:
            return fa      # fixed elements first
    ra, rb = rank_of(a), rank_of(b)
    ex = symx.cur()
    pair = (min(ka, kb), max(ka, kb))
    # distinctness is asserted lazily per compared pair (path-local: the
    # solver frame is popped at the end of the path, so re-assert each path)
    ex.assume(ra != rb)
    return ex.branch(ra < rb)


def ordered(items):
    items = list(items)
    if MODE["mode"] == "concrete":
        return sorted(items, key=MODE["perm"])
    out = []
    for x in items:
        k = 0
        while k < len(out) and less(out[k], x):
            k += 1
        out.insert(k, x)
    return out


class RankedFS(_fs):
    def __new__(cls, it=()):
        return _fs.__new__(cls, _raw(it))

    def __iter__(self):
        return iter(ordered(_fs.__iter__(self)))

    def __or__(self, o): return RankedFS(_fs.__or__(self, o))
    def __ror__(self, o): return RankedFS(_fs.__or__(self, o))
    def __and__(self, o): return RankedFS(_fs.__and__(self, o))
    def __rand__(self, o): return RankedFS(_fs.__and__(self, o))
    def __sub__(self, o): return RankedFS(_fs.__sub__(self, o))
    def __rsub__(self, o): return RankedFS(_fs.__sub__(_fs(o), self))
    def __xor__(self, o): return RankedFS(_fs.__xor__(self, o))
    def union(self, *o): return RankedFS(_fs.union(self, *o))
    def intersection(self, *o): return RankedFS(_fs.intersection(self, *o))
    def difference(self, *o): return RankedFS(_fs.difference(self, *o))
    def copy(self): return RankedFS(self)


class RankedSet(_s):
    def __init__(self, it=()):
        _s.__init__(self, _raw(it))

    def __iter__(self):
        return iter(ordered(_s.__iter__(self)))

    def update(self, *others):
        for o in others:
            _s.update(self, _raw(o))

    def __ior__(self, o):
        _s.update(self, _raw(o))
        return self

    def __isub__(self, o):
        _s.difference_update(self, _raw(o))
        return self

    def __or__(self, o): return RankedSet(_s.__or__(self, o))
    def __ror__(self, o): return RankedSet(_s.__or__(self, o))
    def __and__(self, o): return RankedSet(_s.__and__(self, o))
    def __rand__(self, o): return RankedSet(_s.__and__(self, o))
    def __sub__(self, o): return RankedSet(_s.__sub__(self, o))
    def __rsub__(self, o): return RankedSet(_s.__sub__(_s(o), self))
    def __xor__(self, o): return RankedSet(_s.__xor__(self, o))
    def union(self, *o): return RankedSet(_s.union(self, *o))
    def intersection(self, *o): return RankedSet(_s.intersection(self, *o))
    def difference(self, *o): return RankedSet(_s.difference(self, *o))
    def copy(self): return RankedSet(self)

    def pop(self):
        for x in self:
            _s.discard(self, x)
            return x
        raise KeyError("pop from an empty set")


DAGRT_MODULES = ["dagrt.language", "dagrt.utils", "dagrt.data", "dagrt.expression",
                 "dagrt.codegen.transform", "dagrt.codegen.analysis",
                 "dagrt.codegen.dag_ast", "dagrt.codegen.fortran",
                 "dagrt.codegen.python", "dagrt.codegen.utils", "dagrt.exec_numpy",
                 "dagrt.transform", "dagrt.function_registry"]


def _raw(x):
    """Elements of a (possibly ranked) container without consulting ranks."""
    if isinstance(x, RankedFS):
        return list(_fs.__iter__(x))
    if isinstance(x, RankedSet):
        return list(_s.__iter__(x))
    return x


def order_free_sorted(x, *a, **k):
    """sorted(): its result does not depend on the iteration order of its
    argument, so a ranked argument is read without forking."""
    return builtins.sorted(_raw(x), *a, **k)


class installed:
    """Context manager: rebind the names `frozenset`, `set` (ranked) and
    `sorted` / `natsorted` (order-free readers) in the module globals of dagrt
    so that sets constructed inside dagrt are ranked too."""

    NAMES = ("frozenset", "set", "sorted", "natsorted")

    def __enter__(self):
        import importlib
        self.saved = []
        for mn in DAGRT_MODULES:
            m = importlib.import_module(mn)
            self.saved.append((m, {n: m.__dict__.get(n, None) for n in self.NAMES}))
            m.frozenset = RankedFS
            m.set = RankedSet
            m.sorted = order_free_sorted
            if "natsorted" in m.__dict__:
                orig = m.__dict__["natsorted"]
                m.natsorted = (lambda orig: lambda x, *a, **k: orig(_raw(x), *a, **k))(orig)
        return self

    def __exit__(self, *a):
        for m, old in self.saved:
            for n, v in old.items():
                if v is None:
                    if n in m.__dict__:
                        del m.__dict__[n]
                else:
                    setattr(m, n, v)
        return False
