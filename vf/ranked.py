"""Ranked containers: iteration order of sets as a symbolic input.

RankedFS / RankedSet are frozenset / set subclasses whose __iter__ yields the
elements sorted by a symbolic rank (one z3 Int per distinct element key, all
distinct per universe).  Comparing two ranks forks, so every distinguishable
iteration order is one path; one rank assignment plays the role of one
PYTHONHASHSEED / memory layout.  Orders not expressible as a single global
rank (CPython's table layout can order two sets inconsistently) are outside
the claim."""
import builtins

import z3

from vf import symx

_fs = builtins.frozenset
_s = builtins.set

MODE = {"mode": "symbolic", "perm": None}   # "symbolic" | "concrete" (key function)
_RANKS = {}
_PAIR_ASSUMED = set()


def reset():
    _RANKS.clear()
    _PAIR_ASSUMED.clear()


def elem_key(x):
    if isinstance(x, str):
        return "s:" + x
    i = getattr(x, "id", None)
    if isinstance(i, str):
        return "id:" + i
    n = getattr(x, "name", None)
    if isinstance(n, str):
        return "n:%s:%s" % (type(x).__name__, n)
    if isinstance(x, tuple):
        return "t:" + ",".join(elem_key(e) for e in x)
    return "r:" + repr(x)


def rank_of(x):
    k = elem_key(x)
    r = _RANKS.get(k)
    if r is None:
        r = z3.Int("rank[%s]" % k)
        _RANKS[k] = r
    return r


def less(a, b):
    """Symbolic comparison of ranks (forks).  Ranks of different elements
    are distinct."""
    ka, kb = elem_key(a), elem_key(b)
    if ka == kb:
        return False
    ra, rb = rank_of(a), rank_of(b)
    ex = symx.cur()
    pair = (min(ka, kb), max(ka, kb))
    # distinctness is asserted lazily per compared pair (path-local: the
    # solver frame is popped at the end of the path, so re-assert each path)
    ex.assume(ra != rb)
    return ex.branch(ra < rb)


def ordered(items):
    items = list(items)
    if MODE["mode"] == "concrete":
        return sorted(items, key=MODE["perm"])
    out = []
    for x in items:
        k = 0
        while k < len(out) and less(out[k], x):
            k += 1
        out.insert(k, x)
    return out


class RankedFS(_fs):
    def __iter__(self):
        return iter(ordered(_fs.__iter__(self)))

    def __or__(self, o): return RankedFS(_fs.__or__(self, o))
    def __ror__(self, o): return RankedFS(_fs.__or__(self, o))
    def __and__(self, o): return RankedFS(_fs.__and__(self, o))
    def __rand__(self, o): return RankedFS(_fs.__and__(self, o))
    def __sub__(self, o): return RankedFS(_fs.__sub__(self, o))
    def __rsub__(self, o): return RankedFS(_fs.__sub__(_fs(o), self))
    def __xor__(self, o): return RankedFS(_fs.__xor__(self, o))
    def union(self, *o): return RankedFS(_fs.union(self, *o))
    def intersection(self, *o): return RankedFS(_fs.intersection(self, *o))
    def difference(self, *o): return RankedFS(_fs.difference(self, *o))
    def copy(self): return RankedFS(self)


class RankedSet(_s):
    def __iter__(self):
        return iter(ordered(_s.__iter__(self)))

    def __or__(self, o): return RankedSet(_s.__or__(self, o))
    def __ror__(self, o): return RankedSet(_s.__or__(self, o))
    def __and__(self, o): return RankedSet(_s.__and__(self, o))
    def __rand__(self, o): return RankedSet(_s.__and__(self, o))
    def __sub__(self, o): return RankedSet(_s.__sub__(self, o))
    def __rsub__(self, o): return RankedSet(_s.__sub__(_s(o), self))
    def __xor__(self, o): return RankedSet(_s.__xor__(self, o))
    def union(self, *o): return RankedSet(_s.union(self, *o))
    def intersection(self, *o): return RankedSet(_s.intersection(self, *o))
    def difference(self, *o): return RankedSet(_s.difference(self, *o))
    def copy(self): return RankedSet(self)

    def pop(self):
        for x in self:
            _s.discard(self, x)
            return x
        raise KeyError("pop from an empty set")


DAGRT_MODULES = ["dagrt.language", "dagrt.utils", "dagrt.data", "dagrt.expression",
                 "dagrt.codegen.transform", "dagrt.codegen.analysis",
                 "dagrt.codegen.dag_ast", "dagrt.codegen.fortran",
                 "dagrt.codegen.python", "dagrt.codegen.utils", "dagrt.exec_numpy",
                 "dagrt.transform", "dagrt.function_registry"]


class installed:
    """Context manager: rebind the names `frozenset` and `set` in the module
    globals of dagrt so that sets constructed inside dagrt are ranked too."""

    def __enter__(self):
        import importlib
        self.saved = []
        for mn in DAGRT_MODULES:
            m = importlib.import_module(mn)
            self.saved.append((m, m.__dict__.get("frozenset", None), m.__dict__.get("set", None)))
            m.frozenset = RankedFS
            m.set = RankedSet
        return self

    def __exit__(self, *a):
        for m, f, s in self.saved:
            if f is None:
                del m.frozenset
            else:
                m.frozenset = f
            if s is None:
                del m.set
            else:
                m.set = s
        return False
