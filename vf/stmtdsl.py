"""JSON-serialisable statement specs <-> dagrt statements, and a symbolic
store for running the real interpreter's exec_* methods on them.

  ["assign", name, indexDSL|None, exprDSL, [[ident, loDSL, hiDSL], ...], condDSL|True]
  ["call", [assignees], fname, [argDSL...], {kw: argDSL}, condDSL|True]
  ["yield", exprDSL, component_id, timeDSL, time_id, condDSL|True]
  ["fail", condDSL|True]  ["switch", phase, condDSL|True]  ["raise", clsname, msg, condDSL|True]
  ["nop", condDSL|True]
"""
import z3

from vf import exprdsl, symx
from vf.symx import SymArr, SymBool, SymNum

ARRAY_LEN = 3


class ErrA(Exception):
    pass


class ErrB(RuntimeError):
    pass


ERR_CLASSES = {"ErrA": ErrA, "ErrB": ErrB, "ValueError": ValueError}


def build_cond(c):
    if c is True or c is False:
        return c
    return exprdsl.build(c)


def build_stmt(spec, sid=None, depends_on=()):
    import dagrt.language as L
    k = spec[0]
    kw = {}
    if sid is not None:
        kw["id"] = sid
        kw["depends_on"] = depends_on
    if k == "assign":
        _, name, idx, e, loops, cond = spec
        if idx is not None and idx[0] == "tuple":
            # a left-hand side with several subscripts (only the lhs= path of the constructor builds it)
            from pymbolic.primitives import Subscript, Variable
            return L.Assign(lhs=Subscript(Variable(name), tuple(exprdsl.build(x) for x in idx[1:])), rhs=exprdsl.build(e),
                            loops=[(i, exprdsl.build(lo), exprdsl.build(hi)) for i, lo, hi in loops],
                            condition=build_cond(cond), **kw)
        return L.Assign(assignee=name,
                        assignee_subscript=() if idx is None else (exprdsl.build(idx),),
                        expression=exprdsl.build(e),
                        loops=[(i, exprdsl.build(lo), exprdsl.build(hi)) for i, lo, hi in loops],
                        condition=build_cond(cond), **kw)
    if k == "call":
        _, assignees, fname, args, kws, cond = spec
        return L.AssignFunctionCall(assignees=tuple(assignees), function_id=fname,
                                    parameters=tuple(exprdsl.build(a) for a in args),
                                    kw_parameters={n: exprdsl.build(v) for n, v in kws.items()},
                                    condition=build_cond(cond), **kw)
    if k == "yield":
        _, e, comp, t, tid, cond = spec
        return L.YieldState(expression=exprdsl.build(e), component_id=comp,
                            time=exprdsl.build(t), time_id=tid, condition=build_cond(cond), **kw)
    if k == "fail":
        return L.FailStep(condition=build_cond(spec[1]), **kw)
    if k == "switch":
        return L.SwitchPhase(next_phase=spec[1], condition=build_cond(spec[2]), **kw)
    if k == "raise":
        return L.Raise(ERR_CLASSES[spec[1]], spec[2], condition=build_cond(spec[3]), **kw)
    if k == "nop":
        return L.Nop(condition=build_cond(spec[1]), **kw)
    raise ValueError(spec)


def spec_exprs(spec):
    """All expression DSL terms of a statement spec with a role tag."""
    k = spec[0]
    out = []
    if k == "assign":
        _, name, idx, e, loops, cond = spec
        if idx is not None and idx[0] == "tuple":
            for x in idx[1:]:
                out.append(("lhs_index", x))
        elif idx is not None:
            out.append(("lhs_index", idx))
        out.append(("rhs", e))
        for i, lo, hi in loops:
            out.append(("loop_lo", lo))
            out.append(("loop_hi", hi))
    elif k == "call":
        for a in spec[3]:
            out.append(("arg", a))
        for v in spec[4].values():
            out.append(("kwarg", v))
    elif k == "yield":
        out.append(("yield_expr", spec[1]))
        out.append(("yield_time", spec[3]))
    cond = spec[-1]
    if cond is not True and cond is not False:
        out.append(("cond", cond))
    return out


def dsl_vars(d, out=None, role="num", acc=None):
    """Collect variable names with an inferred role: 'arr' for subscripted
    aggregates, 'bool' for variables in logical position, 'num' else."""
    if acc is None:
        acc = {}
    k = d[0]
    if k == "v":
        prev = acc.get(d[1])
        if prev is None or (prev == "num" and role != "num"):
            acc[d[1]] = role
        return acc
    if k == "c":
        return acc
    if k == "cmp":
        dsl_vars(d[2], None, "num", acc)
        dsl_vars(d[3], None, "num", acc)
    elif k in ("not", "and", "or"):
        for x in d[1:]:
            dsl_vars(x, None, "bool", acc)
    elif k == "if":
        dsl_vars(d[1], None, "bool", acc)
        dsl_vars(d[2], None, role, acc)
        dsl_vars(d[3], None, role, acc)
    elif k == "sub":
        dsl_vars(d[1], None, "arr", acc)
        for x in d[2:]:
            dsl_vars(x, None, "num", acc)
    elif k == "attr:size":
        dsl_vars(d[1], None, "arr", acc)
    elif k == "call":
        for x in d[2]:
            dsl_vars(x, None, "num", acc)
        for v in (d[3] if len(d) > 3 else {}).values():
            dsl_vars(v, None, "num", acc)
    else:
        for x in d[1:]:
            dsl_vars(x, None, role, acc)
    return acc


def spec_var_roles(spec):
    acc = {}
    for role, e in spec_exprs(spec):
        dsl_vars(e, None, "bool" if role == "cond" else "num", acc)
    if spec[0] == "assign":
        if spec[2] is not None:
            acc[spec[1]] = "arr"
        loops = spec[4]
        for i, lo, hi in loops:
            acc.pop(i, None)
        # a bound is evaluated when only the OUTER counters are bound: a bound
        # that names its own or an inner counter reads that name from the
        # incoming store
        for k, (i, lo, hi) in enumerate(loops):
            later = {j for j, _, _ in loops[k:]}
            for n in set(dsl_vars(lo)) | set(dsl_vars(hi)):
                if n in later:
                    acc[n] = "num"
    return acc


def make_value(name, role, tag=""):
    """A fresh symbolic value for store variable `name`."""
    if role == "arr":
        return SymArr([SymNum(z3.Int("%s%s[%d]" % (tag, name, k))) for k in range(ARRAY_LEN)], name=name)
    if role == "bool":
        return SymBool(z3.Bool("%s%s" % (tag, name)))
    return SymNum(z3.Int("%s%s" % (tag, name)))


def uf_function(fname, nres=1):
    """Stub for a user function: pure uninterpreted function of its
    positional and (sorted) keyword arguments."""
    def f(*args, **kw):
        flat = []
        for a in list(args) + [kw[k] for k in sorted(kw)]:
            if isinstance(a, SymArr):
                flat.extend(a.items)
            else:
                flat.append(a)
        base = "%s/%d/%s" % (fname, len(args), ",".join(sorted(kw)))
        if nres == 1:
            return SymNum(symx.uf_apply(base, flat))
        return tuple(SymNum(symx.uf_apply("%s#%d" % (base, i), flat)) for i in range(nres))
    f.__name__ = "uf_" + fname
    return f
