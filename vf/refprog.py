"""RefProgram -- executes a builder-level program (vf.pg DSL) in the order the
builder calls were written.  Independent of dagrt and pymbolic: it works on
the JSON DSL directly, on whatever values sit in the store (z3 proxies or
plain Python numbers).

Documented meaning assumed:
  * if_ evaluates its condition once on entry; else_ runs iff that value was
    false;
  * per-step temporaries die at the end of a step; <state>, <p>, <t>, <dt>
    persist;
  * the next phase is set to the default successor before the body runs;
  * fail_step ends the step (StepFailed), switch_phase ends it with a phase
    change, raise_ ends the run with an error of the given kind;
  * run(): a failed step does not count towards max_steps.
"""
import operator

from vf import stmtdsl

PERSISTENT_PREFIXES = ("<state>", "<p>")


def is_persistent(name):
    return name in ("<t>", "<dt>") or name.startswith(PERSISTENT_PREFIXES)


class StepFail(Exception):
    pass


class StepSwitch(Exception):
    def __init__(self, phase):
        self.phase = phase


class ProgramError(Exception):
    def __init__(self, kind, message=None):
        Exception.__init__(self, kind)
        self.kind = kind


class RefUndefined(Exception):
    """The reference semantics is undefined here (read of an unassigned
    variable): outside the validity predicate of the program family."""


_CMP = {"<": operator.lt, "<=": operator.le, ">": operator.gt, ">=": operator.ge,
        "==": operator.eq, "!=": operator.ne}


FLATTENED = [False]


def _flat(fn):
    """Evaluate with the constructor's flatten identities in force."""
    prev = FLATTENED[0]
    FLATTENED[0] = True
    try:
        return fn()
    finally:
        FLATTENED[0] = prev


def refeval(d, store, funcs, log=None):
    k = d[0]
    if k == "v":
        n = d[1]
        if n not in store:
            raise RefUndefined(n)
        if log is not None:
            log.append(("read", n))
        return store[n]
    if k == "c":
        from vf import exprdsl
        return exprdsl.build_const(d[1])
    if k == "+":
        r = refeval(d[1], store, funcs, log)
        for x in d[2:]:
            r = r + refeval(x, store, funcs, log)
        return r
    if k == "*":
        r = refeval(d[1], store, funcs, log)
        for x in d[2:]:
            r = r * refeval(x, store, funcs, log)
        return r
    if k == "/":
        a, b = refeval(d[1], store, funcs, log), refeval(d[2], store, funcs, log)
        # what the statement constructors store (pymbolic.flatten): 0/x is 0 and x/1 is x -- an int stays an int
        # (0/1 as a Python float would, e.g., be refused as an array index where the stored program has the int 0)
        # ... but only where the real constructors flatten: the right-hand side of an assignment and the condition of an
        # if_ (stored as the right-hand side of a flag assignment).  A yielded expression or a call argument keeps 0/1 as a
        # quotient, which Python evaluates to the float 0.0 (and, e.g., refuses as an array index).
        if FLATTENED[0]:
            if type(a) is int and a == 0:
                return 0
            if type(b) is int and b == 1:
                return a
        return a / b
    if k == "//":
        return refeval(d[1], store, funcs, log) // refeval(d[2], store, funcs, log)
    if k == "%":
        return refeval(d[1], store, funcs, log) % refeval(d[2], store, funcs, log)
    if k == "**":
        return refeval(d[1], store, funcs, log) ** refeval(d[2], store, funcs, log)
    if k == "cmp":
        return _CMP[d[1]](refeval(d[2], store, funcs, log), refeval(d[3], store, funcs, log))
    if k == "not":
        return not refeval(d[1], store, funcs, log)
    if k == "and":
        for x in d[1:]:
            if not refeval(x, store, funcs, log):
                return False
        return True
    if k == "or":
        for x in d[1:]:
            if refeval(x, store, funcs, log):
                return True
        return False
    if k == "if":
        if refeval(d[1], store, funcs, log):
            return refeval(d[2], store, funcs, log)
        return refeval(d[3], store, funcs, log)
    if k == "min" or k == "max":
        vals = [refeval(x, store, funcs, log) for x in d[1:]]
        r = vals[0]
        for v in vals[1:]:
            if k == "min":
                r = v if v < r else r
            else:
                r = v if v > r else r
        return r
    if k == "sub":
        return refeval(d[1], store, funcs, log)[refeval(d[2], store, funcs, log)]
    if k.startswith("attr:"):
        return getattr(refeval(d[1], store, funcs, log), k[5:])
    if k == "call":
        args = [refeval(x, store, funcs, log) for x in d[2]]
        kw = {n: refeval(v, store, funcs, log) for n, v in (d[3] if len(d) > 3 else {}).items()}
        if log is not None:
            log.append(("call", d[1]))
        return funcs[d[1]](*args, **kw)
    raise ValueError("refeval: %r" % (d,))


class RefProgram:
    def __init__(self, prog, funcs):
        self.prog = prog
        self.phases = {p["name"]: p for p in prog["phases"]}
        self.funcs = funcs
        self.store = {}
        self.next_phase = prog["initial"]
        self.assign_log = None   # optional: records (name, value) per step

    def set_up(self, t_start, dt_start, context):
        self.store["<t>"] = t_start
        self.store["<dt>"] = dt_start
        for k, v in context.items():
            self.store["<state>" + k] = v

    # -- one step ------------------------------------------------------------
    def exec_ops(self, ops, events):
        for op in ops:
            self.exec_op(op, events)

    def _assign(self, name, value):
        self.store[name] = value
        if self.assign_log is not None:
            self.assign_log.append((name, value))

    def exec_op(self, op, events):
        k = op[0]
        st = self.store
        if k == "assign":
            _, lhs, e, loops = op[:4]
            self._loops(lhs, e, loops, 0)
        elif k == "assign_call":
            _, assignees, fname, args, kws = op[:5]
            a = [refeval(x, st, self.funcs) for x in args]
            kw = {n: refeval(v, st, self.funcs) for n, v in kws.items()}
            res = self.funcs[fname](*a, **kw)
            if len(assignees) == 1:
                res = (res,)
            elif len(assignees) == 0:
                res = ()
            for n, r in zip(assignees, res):
                self._assign(n, r)
        elif k == "if":
            _, cform, body, els = op[:4]
            if cform[0] == "expr":
                c = _flat(lambda: refeval(cform[1], st, self.funcs))
            else:
                c = _flat(lambda: _CMP[cform[2]](refeval(cform[1], st, self.funcs), refeval(cform[3], st, self.funcs)))
            c = bool(c)
            if c:
                self.exec_ops(body, events)
            elif els is not None:
                self.exec_ops(els, events)
        elif k == "yield":
            _, e, comp, t, tid = op[:5]
            events.append(("StateComputed", refeval(t, st, self.funcs), tid, comp,
                           refeval(e, st, self.funcs)))
        elif k == "fail":
            raise StepFail()
        elif k == "switch":
            raise StepSwitch(op[1])
        elif k == "restart":
            raise StepSwitch(self.cur_phase)
        elif k == "raise":
            raise ProgramError(op[1], op[2])
        else:
            raise ValueError(op)

    def _loops(self, lhs, e, loops, depth):
        st = self.store
        if depth == len(loops):
            val = _flat(lambda: refeval(e, st, self.funcs))
            if isinstance(lhs, str):
                self._assign(lhs, val)
            else:
                arr = st[lhs[1]]
                arr[refeval(lhs[2], st, self.funcs)] = val
                if self.assign_log is not None:
                    self.assign_log.append((lhs[1], None))
            return
        ident, lo, hi = loops[depth]
        a = refeval(lo, st, self.funcs)
        b = refeval(hi, st, self.funcs)
        saved = st.get(ident, None)
        had = ident in st
        for i in range(a, b):
            st[ident] = i
            self._loops(lhs, e, loops, depth + 1)
        # loop counters are not visible after the statement
        if had:
            st[ident] = saved
        else:
            st.pop(ident, None)

    def run_single_step(self, events):
        """Appends events; returns 'completed' | 'failed'.  ProgramError
        propagates."""
        ph = self.phases[self.next_phase]
        self.cur_phase = ph["name"]
        self.next_phase = ph["next"]
        try:
            try:
                self.exec_ops(ph["ops"], events)
            except StepSwitch as s:
                self.next_phase = s.phase
                return "completed"
            except StepFail:
                return "failed"
            return "completed"
        finally:
            for n in list(self.store):
                if not is_persistent(n):
                    del self.store[n]

    def run(self, t_end=None, max_steps=None):
        n_steps = 0
        while True:
            if t_end is not None and self.store["<t>"] >= t_end:
                return
            if max_steps is not None and n_steps >= max_steps:
                return
            cur = self.next_phase
            ev = []
            try:
                outcome = self.run_single_step(ev)
            except (ProgramError, Exception):
                # events yielded before the error are observable
                for e in ev:
                    yield e
                raise
            for e in ev:
                yield e
            if outcome == "failed":
                yield ("StepFailed", self.store["<t>"])
                continue
            yield ("StepCompleted", self.store["<dt>"], self.store["<t>"], cur, self.next_phase)
            n_steps += 1

    def persistent(self):
        return {n: v for n, v in self.store.items() if is_persistent(n)}
