"""RefExpr -- reference meaning of dagrt/pymbolic expression trees as z3 terms.

Independent of dagrt's and pymbolic's evaluators: dispatch is on the class
name and the documented attributes of each node.  No forking: conditional
expressions become z3 If, logical operators And/Or/Not; `/`, `**`, subscripts
and every function symbol are uninterpreted, which is the weakest model -- two
terms proved equal here are equal under every interpretation."""
import z3

from vf import symx

INT = z3.IntSort()
BOOL = z3.BoolSort()


class Ctx:
    """Evaluation context: variables are Int constants named after the
    variable; calls are UFs keyed by (function, arity, keyword names)."""

    def __init__(self, env=None, func_alias=None, prefix="v_"):
        self.env = dict(env or {})
        self.func_alias = dict(func_alias or {})
        self.prefix = prefix
        self.used_vars = set()

    def var(self, name):
        self.used_vars.add(name)
        if name in self.env:
            return self.env[name]
        t = z3.Int(self.prefix + name)
        self.env[name] = t
        return t

    def call(self, fname, args, kwargs):
        fname = self.func_alias.get(fname, fname)
        if isinstance(fname, z3.ExprRef):
            # a function symbol bound to a non-function term: apply generic
            targs = [fname] + [as_num(a) for a in args] + [as_num(kwargs[k]) for k in sorted(kwargs)]
            f = symx.uf("apply_term/%d/%s" % (len(args), ",".join(sorted(kwargs))),
                        *([INT] * (len(targs) + 1)))
            return f(*targs)
        targs = [as_num(a) for a in args] + [as_num(kwargs[k]) for k in sorted(kwargs)]
        f = symx.uf("call_%s/%d/%s" % (fname, len(args), ",".join(sorted(kwargs))),
                    *([INT] * (len(targs) + 1)))
        return f(*targs)


def as_num(t):
    if isinstance(t, bool):
        return z3.IntVal(int(t))
    if isinstance(t, int):
        return z3.IntVal(t)
    if z3.is_bool(t):
        return z3.If(t, z3.IntVal(1), z3.IntVal(0))
    return t


def as_bool(t):
    if isinstance(t, bool):
        return z3.BoolVal(t)
    if z3.is_bool(t):
        return t
    return t != 0


def const_term(c):
    import numpy as np
    if isinstance(c, (bool, np.bool_)):
        return z3.BoolVal(bool(c))
    if isinstance(c, (int, np.integer)):
        return z3.IntVal(int(c))
    if isinstance(c, (float, np.floating)):
        return symx.lift(float(c))
    if isinstance(c, (complex, np.complexfloating)):
        return z3.Int("lit_" + repr(complex(c)))
    if isinstance(c, str):
        return z3.Int("str_" + c)
    if c is None:
        return z3.Int("none")
    raise ValueError("constant %r" % (c,))


_CMP = {
    "<": lambda a, b: a < b, "<=": lambda a, b: a <= b,
    ">": lambda a, b: a > b, ">=": lambda a, b: a >= b,
    "==": lambda a, b: a == b, "!=": lambda a, b: a != b,
}


def term(e, ctx):
    n = type(e).__name__
    if n in ("int", "float", "bool", "complex", "str", "NoneType") or n.startswith(
            ("int", "float", "complex", "bool_")):
        return const_term(e)
    if n == "Variable":
        return ctx.var(e.name)
    if n == "FunctionSymbol":
        return z3.Int("fsym_" + type(e).__name__)
    if n == "Sum":
        r = as_num(term(e.children[0], ctx))
        for c in e.children[1:]:
            r = r + as_num(term(c, ctx))
        return r
    if n == "Product":
        r = as_num(term(e.children[0], ctx))
        for c in e.children[1:]:
            r = r * as_num(term(c, ctx))
        return r
    if n == "Quotient":
        return symx.int_truediv(as_num(term(e.numerator, ctx)), as_num(term(e.denominator, ctx)))
    if n == "FloorDiv":
        return symx._py_floordiv(as_num(term(e.numerator, ctx)),
                                 as_num(term(e.denominator, ctx)))
    if n == "Remainder":
        return symx._py_mod(as_num(term(e.numerator, ctx)),
                            as_num(term(e.denominator, ctx)))
    if n == "Power":
        return symx.int_pow(as_num(term(e.base, ctx)), as_num(term(e.exponent, ctx)))
    if n == "Comparison":
        return _CMP[e.operator](as_num(term(e.left, ctx)), as_num(term(e.right, ctx)))
    if n == "LogicalNot":
        return z3.Not(as_bool(term(e.child, ctx)))
    if n == "LogicalAnd":
        return z3.And(*[as_bool(term(c, ctx)) for c in e.children])
    if n == "LogicalOr":
        return z3.Or(*[as_bool(term(c, ctx)) for c in e.children])
    if n == "If":
        a, b = term(e.then, ctx), term(e.else_, ctx)
        if z3.is_bool(a) != z3.is_bool(b):
            a, b = as_num(a), as_num(b)
        return z3.If(as_bool(term(e.condition, ctx)), a, b)
    if n == "Min" or n == "Max":
        r = as_num(term(e.children[0], ctx))
        for c in e.children[1:]:
            x = as_num(term(c, ctx))
            r = z3.If(x < r, x, r) if n == "Min" else z3.If(x > r, x, r)
        return r
    if n == "Subscript":
        idx = e.index if isinstance(e.index, tuple) else (e.index,)
        f = symx.uf("subscript/%d" % len(idx), *([INT] * (len(idx) + 2)))
        return f(as_num(term(e.aggregate, ctx)), *[as_num(term(i, ctx)) for i in idx])
    if n == "Lookup":
        f = symx.uf("lookup_" + e.name, INT, INT)
        return f(as_num(term(e.aggregate, ctx)))
    if n == "Call":
        fn = e.function
        fname = fn.name if type(fn).__name__ == "Variable" else str(fn)
        return ctx.call(fname, [term(p, ctx) for p in e.parameters], {})
    if n == "CallWithKwargs":
        fn = e.function
        fname = fn.name if type(fn).__name__ == "Variable" else str(fn)
        return ctx.call(fname, [term(p, ctx) for p in e.parameters],
                        {k: term(v, ctx) for k, v in e.kw_parameters.items()})
    raise ValueError("RefExpr: unsupported node %s (%r)" % (n, e))


def equal_terms(a, b):
    if z3.is_bool(a) and z3.is_bool(b):
        return a == b
    return as_num(a) == as_num(b)


# ---------------------------------------------------------------------------
# structural helpers (independent variable collection)

def variables(e, include_functions=False, out=None):
    """Set of variable names an expression mentions (function symbols of calls
    excluded unless include_functions)."""
    if out is None:
        out = set()
    n = type(e).__name__
    if n == "Variable":
        out.add(e.name)
    elif n in ("Sum", "Product", "LogicalAnd", "LogicalOr", "Min", "Max"):
        for c in e.children:
            variables(c, include_functions, out)
    elif n in ("Quotient", "FloorDiv", "Remainder"):
        variables(e.numerator, include_functions, out)
        variables(e.denominator, include_functions, out)
    elif n == "Power":
        variables(e.base, include_functions, out)
        variables(e.exponent, include_functions, out)
    elif n == "Comparison":
        variables(e.left, include_functions, out)
        variables(e.right, include_functions, out)
    elif n == "LogicalNot":
        variables(e.child, include_functions, out)
    elif n == "If":
        variables(e.condition, include_functions, out)
        variables(e.then, include_functions, out)
        variables(e.else_, include_functions, out)
    elif n == "Subscript":
        variables(e.aggregate, include_functions, out)
        idx = e.index if isinstance(e.index, tuple) else (e.index,)
        for i in idx:
            variables(i, include_functions, out)
    elif n == "Lookup":
        variables(e.aggregate, include_functions, out)
    elif n in ("Call", "CallWithKwargs"):
        if include_functions:
            variables(e.function, include_functions, out)
        for p in e.parameters:
            variables(p, include_functions, out)
        if n == "CallWithKwargs":
            for v in e.kw_parameters.values():
                variables(v, include_functions, out)
    return out


# ---------------------------------------------------------------------------
# concrete evaluation (used only by replays): exact rationals where possible

class Undefined(Exception):
    pass


def ceval(e, env, funcs):
    """Evaluate a pymbolic expression on plain Python numbers.
    env: name -> number; funcs: name -> callable(*args, **kwargs)."""
    from fractions import Fraction
    n = type(e).__name__
    if n in ("int", "float", "bool", "complex", "str", "NoneType") or n.startswith(
            ("int", "float", "complex", "bool_")):
        import numpy as np
        if isinstance(e, np.generic):
            return e.item()
        return e
    if n == "Variable":
        if e.name in env:
            return env[e.name]
        if e.name in funcs:
            return funcs[e.name]
        raise Undefined("unbound %s" % e.name)
    if n == "Sum":
        r = ceval(e.children[0], env, funcs)
        for c in e.children[1:]:
            r = r + ceval(c, env, funcs)
        return r
    if n == "Product":
        r = ceval(e.children[0], env, funcs)
        for c in e.children[1:]:
            r = r * ceval(c, env, funcs)
        return r
    if n == "Quotient":
        a, b = ceval(e.numerator, env, funcs), ceval(e.denominator, env, funcs)
        if b == 0:
            raise Undefined("division by zero")
        if isinstance(a, (int, Fraction)) and isinstance(b, (int, Fraction)) \
                and not isinstance(a, bool) and not isinstance(b, bool):
            return Fraction(a) / Fraction(b)
        return a / b
    if n == "FloorDiv":
        a, b = ceval(e.numerator, env, funcs), ceval(e.denominator, env, funcs)
        if b == 0:
            raise Undefined("division by zero")
        return a // b
    if n == "Remainder":
        a, b = ceval(e.numerator, env, funcs), ceval(e.denominator, env, funcs)
        if b == 0:
            raise Undefined("division by zero")
        return a % b
    if n == "Power":
        a, b = ceval(e.base, env, funcs), ceval(e.exponent, env, funcs)
        try:
            if isinstance(b, Fraction) and b.denominator == 1:
                b = int(b)
            if isinstance(b, int) and abs(b) > 64:
                raise Undefined("huge power")
            if isinstance(a, (int, Fraction)) and isinstance(b, int):
                if a == 0 and b < 0:
                    raise Undefined("0 ** negative")
                return Fraction(a) ** b
            r = float(a) ** float(b)
            if isinstance(r, complex):
                raise Undefined("complex power")
            return r
        except (OverflowError, ZeroDivisionError):
            raise Undefined("power")
    if n == "Comparison":
        import operator as op
        f = {"<": op.lt, "<=": op.le, ">": op.gt, ">=": op.ge, "==": op.eq, "!=": op.ne}[e.operator]
        return f(ceval(e.left, env, funcs), ceval(e.right, env, funcs))
    if n == "LogicalNot":
        return not ceval(e.child, env, funcs)
    if n == "LogicalAnd":
        return all(ceval(c, env, funcs) for c in e.children)
    if n == "LogicalOr":
        return any(ceval(c, env, funcs) for c in e.children)
    if n == "If":
        if ceval(e.condition, env, funcs):
            return ceval(e.then, env, funcs)
        return ceval(e.else_, env, funcs)
    if n == "Min":
        return min(ceval(c, env, funcs) for c in e.children)
    if n == "Max":
        return max(ceval(c, env, funcs) for c in e.children)
    if n == "Subscript":
        idx = e.index if isinstance(e.index, tuple) else (e.index,)
        return funcs["__subscript__"](ceval(e.aggregate, env, funcs),
                                      *[ceval(i, env, funcs) for i in idx])
    if n in ("Call", "CallWithKwargs"):
        fn = e.function
        fname = fn.name if type(fn).__name__ == "Variable" else str(fn)
        args = [ceval(p, env, funcs) for p in e.parameters]
        kw = {}
        if n == "CallWithKwargs":
            kw = {k: ceval(v, env, funcs) for k, v in e.kw_parameters.items()}
        if fname in funcs:
            return funcs[fname](*args, **kw)
        return funcs["__call__"](fname, args, kw)
    raise ValueError("ceval: unsupported node %s" % n)


def hash_function(seed):
    """A family of deterministic 'arbitrary' functions for replays: value
    depends on function name, positional args and keyword args."""
    import hashlib
    from fractions import Fraction

    def norm(x):
        if isinstance(x, bool):
            return "b%d" % x
        if isinstance(x, (int, Fraction)):
            return str(Fraction(x))
        if isinstance(x, float):
            return repr(x)
        return repr(x)

    def call(fname, args, kw):
        s = "%s|%s|%s|%s" % (seed, fname, ",".join(norm(a) for a in args),
                             ",".join("%s=%s" % (k, norm(v)) for k, v in sorted(kw.items())))
        h = int(hashlib.sha256(s.encode()).hexdigest()[:8], 16)
        return h % 23 - 11

    return call
