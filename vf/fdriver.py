"""Generated Fortran drivers + gfortran runs (conformance of fsym, replays of
C03 / C12 candidates under -fsanitize=address)."""
import os
import re
import shutil
import subprocess
import tempfile

from vf import fsym


def fmt_real(v):
    s = repr(float(v))
    if "e" in s:
        return s.replace("e", "d")
    return s + "d0"


def make_driver(modname, mod, init, nruns, print_fields=True):
    """init: dict initialize-argument -> float | list of floats."""
    args, decls, body = mod.subs["initialize"]
    lines = ["program drv", "  use %s" % modname, "  implicit none",
             "  type(dagrt_state_type), pointer :: s", "  integer irun"]
    arr_decl = []
    setup = []
    call_args = ["dagrt_state=s"]
    for a in args:
        if a == "dagrt_state" or a not in init:
            continue
        v = init[a]
        if isinstance(v, (list, tuple)):
            arr_decl.append("  real*8, dimension(%d) :: in_%s" % (len(v), a))
            for k, x in enumerate(v):
                setup.append("  in_%s(%d) = %s" % (a, k + 1, fmt_real(x)))
            call_args.append("%s=in_%s" % (a, a))
        else:
            call_args.append("%s=%s" % (a, fmt_real(v)))
    lines += arr_decl
    lines.append("  allocate(s)")
    lines += setup
    lines.append("  call initialize(%s)" % ", &\n      ".join(call_args))
    lines.append("  do irun = 1, %d" % nruns)
    lines.append("    call run(dagrt_state=s)")
    if print_fields:
        lines.append("    write(*,'(A,I0)') 'RUN ', irun")
        for typ, attrs, names in mod.typefields["dagrt_state_type"]:
            for n, dim in names:
                is_arr = dim is not None or any(x.startswith("dimension") for x in attrs)
                if n.startswith("dagrt_refcnt"):
                    continue
                if is_arr:
                    lines.append("    if (associated(s%%%s)) then" % n)
                    lines.append("      write(*,'(A,I0,10(1X,ES25.17E3))') 'ARR %s ', size(s%%%s), s%%%s" % (n, n, n))
                    lines.append("    else")
                    lines.append("      write(*,'(A)') 'ARR %s unassociated'" % n)
                    lines.append("    end if")
                elif typ == "int":
                    lines.append("    write(*,'(A,I0)') 'INT %s ', s%%%s" % (n, n))
                elif typ == "real":
                    lines.append("    write(*,'(A,ES25.17E3)') 'REAL %s ', s%%%s" % (n, n))
    lines.append("  end do")
    lines.append("  call shutdown(dagrt_state=s)")
    lines.append("  deallocate(s)")
    lines.append("end program")
    return "\n".join(lines) + "\n"


def run_gfortran(module_text, driver_text, sanitize=False, modname="m", timeout=120, syntax_only=False):
    d = tempfile.mkdtemp(prefix="vf_fortran_")
    try:
        with open(os.path.join(d, "mod.f90"), "w") as f:
            f.write(module_text)
        if syntax_only:
            p = subprocess.run(["gfortran", "-fsyntax-only", "-Wall", "-Wno-unused-dummy-argument", "-Wno-unused-variable",
                                "-Wno-maybe-uninitialized", "mod.f90"], cwd=d, capture_output=True, text=True, timeout=timeout)
            return {"compile_rc": p.returncode, "compile_err": p.stderr[-3000:]}
        with open(os.path.join(d, "drv.f90"), "w") as f:
            f.write(driver_text)
        cmd = ["gfortran", "-g", "-O0", "-ffree-line-length-none"]
        if sanitize:
            cmd += ["-fsanitize=address", "-fno-omit-frame-pointer"]
        cmd += ["mod.f90", "drv.f90", "-o", "run.exe"]
        p = subprocess.run(cmd, cwd=d, capture_output=True, text=True, timeout=timeout)
        if p.returncode != 0:
            return {"compile_rc": p.returncode, "compile_err": p.stderr[-3000:]}
        env = dict(os.environ)
        env["ASAN_OPTIONS"] = "detect_leaks=1:halt_on_error=1"
        try:
            r = subprocess.run([os.path.join(d, "run.exe")], cwd=d, capture_output=True, text=True, timeout=timeout, env=env)
        except subprocess.TimeoutExpired:
            return {"compile_rc": 0, "rc": -9, "stdout": "", "stderr": "timeout"}
        return {"compile_rc": 0, "rc": r.returncode, "stdout": r.stdout, "stderr": r.stderr[-6000:]}
    finally:
        shutil.rmtree(d, ignore_errors=True)


def parse_driver_output(out):
    """-> list (per run) of dict field -> int | float | list | 'unassociated'."""
    runs = []
    cur = None
    for line in out.splitlines():
        t = line.split()
        if not t:
            continue
        if t[0] == "RUN":
            cur = {}
            runs.append(cur)
        elif cur is None:
            continue
        elif t[0] == "INT":
            cur[t[1]] = int(t[2])
        elif t[0] == "REAL":
            cur[t[1]] = _f(t[2])
        elif t[0] == "ARR":
            if t[2] == "unassociated":
                cur[t[1]] = "unassociated"
            else:
                cur[t[1]] = [_f(x) for x in t[3:3 + int(t[2])]]
    return runs


def _f(s):
    s = s.lower()
    if "nan" in s:
        return float("nan")
    if "inf" in s:
        return float("-inf") if s.startswith("-") else float("inf")
    return float(s.replace("d", "e"))


def fsym_concrete_runs(module_text, init, nruns):
    """The same driver run through fsym on plain floats."""
    st = fsym.Stepper(module_text, fsym.FloatOps(), check_uninit=False)
    st.initialize(**init)
    runs = []
    for _ in range(nruns):
        try:
            st.run()
        except fsym.Stop:
            break
        snap = {}
        for typ, attrs, names in st.mod.typefields["dagrt_state_type"]:
            for n, dim in names:
                if n.startswith("dagrt_refcnt"):
                    continue
                c = st.state.f[n]
                if c.is_array:
                    v = c.val
                    snap[n] = "unassociated" if v is None or v is fsym.UNDEF else ("FREED" if not v.live else list(v.data))
                elif typ in ("int", "real"):
                    snap[n] = c.val
        runs.append(snap)
    st.shutdown()
    return runs, st.M.err, [b.id for b in st.M.leaked()]


def same_value(a, b, tol=1e-12):
    import math
    if isinstance(a, list) or isinstance(b, list):
        return isinstance(a, list) and isinstance(b, list) and len(a) == len(b) and all(same_value(x, y, tol) for x, y in zip(a, b))
    if isinstance(a, str) or isinstance(b, str):
        return a == b
    if a is None or b is None:
        return True     # undefined in one model: not comparable
    if isinstance(a, float) and math.isnan(a):
        return isinstance(b, float) and math.isnan(b) or b is None
    if isinstance(b, float) and math.isnan(b):
        return False
    if isinstance(a, float) and math.isinf(a) or isinstance(b, float) and math.isinf(b):
        return float(a) == float(b)
    return abs(float(a) - float(b)) <= tol * max(1.0, abs(float(a)), abs(float(b)))
