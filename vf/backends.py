"""Helpers to run a PG program on the three executors (real interpreter, real
generated Python class, RefProgram) with stubs for user functions and
built-ins, for symbolic runs and for concrete replays."""
import inspect
import re

import z3

from vf import pg, refprog, stmtdsl, symx
from vf.symx import SymArr, SymBool, SymNum

BUILTIN_NUMPY = {"<builtin>len": "size", "<builtin>isnan": "isnan",
                 "<builtin>elementwise_abs": "abs", "<builtin>dot_product": "vdot"}
BUILTIN_STATIC = ["norm_1", "norm_2", "norm_inf", "array", "matmul", "transpose",
                  "linear_solve", "svd", "print"]


def sanitize(name):
    return re.sub(r"[^A-Za-z0-9_]", "_", name).lstrip("_")


def flatten_args(args, kw):
    flat = []
    for a in list(args) + [kw[k] for k in sorted(kw)]:
        if isinstance(a, SymArr):
            flat.extend(a.items)
        elif type(a).__name__ == "ndarray":
            flat.extend(list(a))
        else:
            flat.append(a)
    return flat


def sym_user_functions():
    return {"<func>f": stmtdsl.uf_function("<func>f"), "<func>g": stmtdsl.uf_function("<func>g"),
            "<func>h2": stmtdsl.uf_function("<func>h2", nres=2)}


def sym_builtin_stub(name):
    """Stub with the REAL builtin's signature (so that Python call binding is
    exactly what it is for the real function) returning a UF of the bound
    arguments."""
    import dagrt.builtins_python as B
    real = B.builtins[name]
    sig = inspect.signature(real)

    def stub(*a, **k):
        ba = sig.bind(*a, **k)       # raises TypeError exactly as Python would
        vals = [ba.arguments[p] for p in sig.parameters if p in ba.arguments]
        return SymNum(symx.uf_apply("bi_" + name, flatten_args(vals, {})))
    stub.__name__ = "stub_" + name
    return stub


class SymNumpy:
    """Stand-in for the numpy module inside the generated class."""

    def size(self, x):
        return SymNum(symx.uf_apply("bi_<builtin>len", flatten_args([x], {})))

    def isnan(self, x):
        return SymNum(symx.uf_apply("bi_<builtin>isnan", flatten_args([x], {})))

    def abs(self, x):
        return SymNum(symx.uf_apply("bi_<builtin>elementwise_abs", flatten_args([x], {})))

    def vdot(self, a, b):
        return SymNum(symx.uf_apply("bi_<builtin>dot_product", flatten_args([a, b], {})))

    def __getattr__(self, n):
        raise symx.Unmodelled("numpy.%s in generated code" % n)


def make_interpreter(dag, functions, builtin_stubs=True):
    from dagrt.exec_numpy import NumpyInterpreter
    it = NumpyInterpreter(dag, function_map=dict(functions))
    if builtin_stubs:
        for name in list(it.functions):
            if name.startswith("<builtin>"):
                it.functions[name] = sym_builtin_stub(name)
    return it


def generate_class(dag, class_name="M"):
    from dagrt.codegen import PythonCodeGenerator
    return PythonCodeGenerator(class_name=class_name).get_class(dag)


def make_generated(cls, functions, builtin_stubs=True):
    m = cls(function_map=dict(functions))
    if builtin_stubs:
        m._numpy = SymNumpy()
        for n in BUILTIN_STATIC:
            setattr(m, "_builtin_" + n, sym_builtin_stub("<builtin>" + n))
    return m


def initial_values(prog, tag="init_", concrete=None):
    """(t0, dt0, context) with fresh objects (call once per executor)."""
    roles = pg.var_roles(prog)
    ctx = {}
    for name, role in sorted(roles.items()):
        if not name.startswith("<state>"):
            continue
        key = name[len("<state>"):]
        if concrete is not None:
            v = concrete["context"].get(key, 0)
            if isinstance(v, list):
                import numpy as np
                v = np.array(v, dtype=object)
            ctx[key] = v
        else:
            ctx[key] = stmtdsl.make_value(name, role, tag)
    if concrete is not None:
        return concrete["t0"], concrete["dt0"], ctx
    return SymNum(z3.Int(tag + "t")), SymNum(z3.Int(tag + "dt")), ctx


def assume_ranges(ex, prog, tag="init_"):
    """Assumptions on the symbolic initial state: loop-bound variables and
    <state>n in 0..3."""
    names = pg.loop_bound_vars(prog) | {"<state>n"}
    for n in names:
        if n.startswith("<state>"):
            v = z3.Int(tag + n)
            ex.assume(z3.And(v >= 0, v <= 3))


def norm_event(e):
    """Event -> tuple (class name, fields...) for all three executors."""
    if isinstance(e, tuple) and not hasattr(e, "_fields"):
        return e
    n = type(e).__name__
    return (n,) + tuple(e)


def error_kind(exc):
    if isinstance(exc, refprog.ProgramError):
        return exc.kind
    cond = getattr(exc, "condition", None)
    if type(exc).__name__ == "StepError" and cond is not None:
        return cond
    if type(exc) in stmtdsl.ERR_CLASSES.values() and type(exc).__name__ in ("ErrA", "ErrB"):
        return type(exc).__name__
    return "!" + type(exc).__name__


def persistent_interp(it):
    return {n: v for n, v in it.context.items() if refprog.is_persistent(n)}, \
        sorted(n for n in it.context if not refprog.is_persistent(n))


def persistent_generated(m, names):
    out = {}
    for n in names:
        if n == "<t>":
            out[n] = m.t
        elif n == "<dt>":
            out[n] = m.dt
        else:
            attr = "global_" + sanitize(n)
            if hasattr(m, attr):
                out[n] = getattr(m, attr)
    extra = sorted(a for a in vars(m) if a.startswith("global_")
                   and a not in {"global_" + sanitize(n) for n in names})
    return out, extra


def program_persistent_names(prog):
    return sorted(n for n in pg.var_roles(prog) if refprog.is_persistent(n)) + ["<t>", "<dt>"]


# ---------------------------------------------------------------------------
# concrete replay support

def uf_tables_from_model(model):
    """All UF interpretations of the model as JSON-able tables."""
    out = {}
    for key, f in symx._UFS.items():
        name = key[0]
        if name in ("truediv", "pow", "powr"):
            continue
        entries, els = symx.uf_table(model, f)
        if entries or els:
            out.setdefault(name, {"entries": [], "else": 0})
            out[name]["entries"].extend([[list(k), v] for k, v in entries.items()])
            out[name]["else"] = els
    return out


def _key(vals):
    out = []
    for v in vals:
        if isinstance(v, bool):
            out.append(int(v))
        elif isinstance(v, float) and v == int(v):
            out.append(int(v))
        else:
            try:
                from fractions import Fraction
                if isinstance(v, Fraction) and v.denominator == 1:
                    v = int(v)
            except Exception:  # noqa
                pass
            out.append(v)
    return tuple(out)


def concrete_function(base, tables, nres=1):
    def lookup(name, flat):
        t = tables.get(name)
        if t is None:
            return 0
        k = _key(flat)
        for ek, ev in t["entries"]:
            if tuple(ek) == k:
                return ev
        return t["else"]

    def f(*args, **kw):
        flat = []
        for a in list(args) + [kw[k] for k in sorted(kw)]:
            if type(a).__name__ == "ndarray" or isinstance(a, (list, tuple)):
                flat.extend(list(a))
            else:
                flat.append(a)
        nm = "%s/%d/%s" % (base, len(args), ",".join(sorted(kw)))
        if nres == 1:
            return lookup(nm, flat)
        return tuple(lookup("%s#%d" % (nm, i), flat) for i in range(nres))
    return f


def generic_user_functions():
    """Concrete user functions for replays that do not depend on a model: results depend on the arguments and are never 0
    (a model's table defaults to 0, which turns  x / g(..)  into a ZeroDivisionError that the symbolic run, where `/` is
    uninterpreted, never sees)."""
    def mk(salt, nres=1):
        def f(*args, **kw):
            acc = salt
            for a in list(args) + [kw[k] for k in sorted(kw)]:
                vals = list(a) if (type(a).__name__ == "ndarray" or isinstance(a, (list, tuple))) else [a]
                for v in vals:
                    try:
                        acc = (acc * 31 + int(v) * 7 + 3) % 1009
                    except (TypeError, ValueError, OverflowError):
                        acc = (acc * 31 + 5) % 1009
            r = 1 + acc % 5
            return r if nres == 1 else tuple(r + i for i in range(nres))
        return f
    return {"<func>f": mk(1), "<func>g": mk(2), "<func>h2": mk(3, 2)}


def concrete_user_functions(tables):
    return {"<func>f": concrete_function("<func>f", tables), "<func>g": concrete_function("<func>g", tables),
            "<func>h2": concrete_function("<func>h2", tables, 2)}
