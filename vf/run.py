"""python -m vf.run <ID> [quick|thorough]"""
import importlib
import os
import sys

from vf import common


def main(argv):
    pid = argv[1]
    tier = argv[2] if len(argv) > 2 else (os.environ.get("VERIF_TIER") or "quick")
    if os.environ.get("VERIF_TIER") in ("quick", "thorough") and len(argv) <= 2:
        tier = os.environ["VERIF_TIER"]
    seed = int(os.environ.get("VERIF_SEED", "0"))
    if tier == "thorough":
        # every N-th validity query is re-asked of cvc5 (second opinion)
        os.environ.setdefault("VERIF_CROSSCHECK", "400")
    mod = importlib.import_module("vf.checks." + pid.lower())
    try:
        rc = mod.main(tier, seed)
    except common.HarnessError as e:
        print("HARNESS-ERROR: %s" % e)
        rc = common.EXIT_HARNESS
    except Exception as e:  # noqa
        # a crash of the machinery is never a verdict about the property
        import traceback
        print("HARNESS-ERROR: the check raised %s: %s\n%s" % (type(e).__name__, e, traceback.format_exc()[-2500:]))
        rc = common.EXIT_HARNESS
    sys.stdout.flush()
    return rc


if __name__ == "__main__":
    sys.exit(main(sys.argv))
