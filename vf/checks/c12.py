"""C12 -- generated Fortran never leaks, double-frees or uses freed user-type
storage.

The module emitted by the REAL Fortran generator is executed by fsym with its
heap model: initialize -> run x k -> shutdown, on symbolic real inputs, so
which guarded blocks, failures and phase switches happen in each step is
decided by the solver (every feasible combination is a path).  On every path:
each dereference / element access / argument association goes through an
associated pointer to a live block, every DEALLOCATE hits a live block, after
shutdown every block the module allocated is freed, and shutdown wrote no
'leaked reference' line.  Candidates are replayed with a generated driver
compiled by gfortran -fsanitize=address (ASan + LeakSanitizer)."""
import random

import z3

from vf import common, fcorpus, fdriver, fsym, pg, symx
from vf.common import Run, pmap, chunks
from vf.symx import Explorer

PID = "C12"

V, C, ADD, MUL = pg.V, pg.C, pg.ADD, pg.MUL
T, DT, Y, S = fcorpus.T, fcorpus.DT, fcorpus.Y, fcorpus.S
GT = pg.GT


def corpus():
    progs = [p for p in fcorpus.corpus() if "<state>y" in pg.var_roles(p)]
    extra = []

    def add(name, prog):
        prog = dict(prog)
        prog["name"] = name
        prog["phases"] = list(prog["phases"]) + [
            {"name": "zz_kindseed", "next": "zz_kindseed", "ops": [["assign_call", ["<state>y"], "<func>f", [T, Y], {}]]}]
        extra.append(prog)
    add("overwrite_temp", pg.P1([["assign", "a", MUL(Y, C(2)), []], ["assign", "a", ADD(V("a"), Y), []],
                                 ["assign", "a", fcorpus.F(T, V("a")), []], ["assign", "<state>y", V("a"), []]]))
    add("guarded_temp_never_used", pg.P1([["if", ["expr", GT(S, C(0))], [["assign", "a", MUL(Y, C(2)), []]], None],
                                          ["assign", "<p>s", ADD(S, C(-1)), []]]))
    add("yield_temp_then_fail", pg.P1([["assign", "a", ADD(Y, Y), []], ["yield", V("a"), "y", T, "mid"],
                                       ["if", ["expr", GT(S, C(0))], [["assign", "<p>s", ADD(S, C(-1)), []], ["fail"]], None],
                                       ["assign", "<state>y", V("a"), []]]))
    add("move_chain", pg.P1([["assign", "a", Y, []], ["assign", "b", V("a"), []], ["assign", "c", V("b"), []],
                             ["assign", "<state>y", V("c"), []], ["assign", "<p>s", ADD(S, C(1)), []]]))
    return progs + extra


def run_module(prog, txt, K, inputs, ops, shutdown=True):
    """-> (problem | None, stepper)."""
    t0, dt0, ctx, pvals = inputs()
    st = fsym.Stepper(txt, ops)
    try:
        st.initialize(**fcorpus.init_kwargs(prog, t0, dt0, ctx, pvals, st.mod))
        for run_no in range(1, K + 1):
            try:
                st.run()
            except fsym.Stop:
                return None, st       # the program ended itself: storage is released by the OS
        if shutdown:
            st.shutdown()
    except fsym.MemError as e:
        return "memory error: %s" % e, st
    leaks = st.M.leaked()
    if leaks:
        return "after shutdown %d block(s) allocated by the module are still live: %s" % (
            len(leaks), sorted({b.where for b in leaks})), st
    if any("leaked reference" in e for e in st.M.err):
        return "shutdown reports a leaked reference", st
    return None, st


def harness(prog, txt, K):
    def h(ex):
        symx.LITERAL_MODE["mode"] = "real"
        try:
            bad, st = run_module(prog, txt, K, lambda: fcorpus.sym_inputs(prog), fsym.SymOps())
        finally:
            symx.LITERAL_MODE["mode"] = "uf"
        ex.stats.obligations += 1
        if bad is None:
            ex.stats.discharged += 1
            return None
        ex.stats.refuted += 1
        m = ex.path_model()
        vals = None
        if m is not None:
            def val(t):
                v = symx.model_value(m, t)
                return float(v) if not isinstance(v, str) else 0.0
            vals = {"t": val(z3.Real("in_t")), "dt": val(z3.Real("in_dt")),
                    "y": [val(z3.Real("in_y[%d]" % k)) for k in range(fcorpus.UT_LEN)]}
            for n in pg.var_roles(prog):
                if n.startswith("<p>"):
                    vals[n] = val(z3.Real("in_" + n))
        return {"prog": prog, "K": K, "problem": bad, "vals": vals}
    return h


def check_program(prog, K, max_paths):
    from vf.symx import Stats
    st = Stats()
    try:
        dag, txt = fcorpus.generate(prog)
    except Exception:  # noqa
        return st, None, 0       # generation problems are C03's business
    def unsupported(e, where):
        # a module that gfortran itself rejects is C03's business ("the module compiles"), not a limit of fsym
        from vf import fdriver
        g = fdriver.run_gfortran(txt, None, syntax_only=True)
        if g["compile_rc"] != 0:
            return st, [], 0
        raise common.HarnessError("fsym %s %s: %s" % (where, prog.get("name"), e))
    try:
        fsym.Module(txt)
    except fsym.Unsupported as e:
        return unsupported(e, "cannot read the module emitted for")
    ex = Explorer(timeout_ms=3000, max_paths=max_paths, max_decisions=300, wall_s=40)
    # what runs inside a path here is my own executor of the emitted text (fsym) and term construction, not dagrt: a path
    # that exceeds its CPU budget is undecided, not a hang of the code under test
    ex.timeout_is_undecided = True
    try:
        res = ex.explore(harness(prog, txt, K))
    except fsym.Unsupported as e:
        return unsupported(e, "unsupported construct while executing")
    st.add(ex.stats)
    cands = [r for _, r in res if r is not None]
    return st, cands, ex.stats.paths


def work(item):
    tr = common.FunctionTrace()
    tr.start()
    from vf.symx import Stats
    st = Stats()
    cands, samples = [], []
    n = nontriv = 0
    for prog in item["progs"]:
        s, c, paths = check_program(prog, item["K"], item["max_paths"])
        st.add(s)
        n += 1
        if paths >= 2:
            nontriv += 1
        # one candidate per distinct problem text
        seen = set()
        for x in c or []:
            if x["problem"] not in seen:
                seen.add(x["problem"])
                cands.append(x)
        samples.append({"program": prog.get("name"), "paths": paths})
    tr.stop()
    return {"stats": st.as_dict(), "candidates": cands, "evaluations": n, "programs": n,
            "distinct_nontrivial": nontriv, "samples": samples[:2], "functions": sorted(tr.seen)}


# ---------------------------------------------------------------------------

def asan_run(prog, txt, vals, K):
    mod = fsym.Module(txt)
    t0, dt0, ctx, pv = fcorpus.conc_inputs(prog, vals)
    kw = fcorpus.init_kwargs(prog, t0, dt0, ctx, pv, mod)
    g = fdriver.run_gfortran(txt, fdriver.make_driver("m", mod, kw, K, print_fields=False), sanitize=True)
    return g


def sanitizer_verdict(g):
    if g.get("compile_rc"):
        return "compile error: %s" % g["compile_err"][-300:]
    err = g.get("stderr") or ""
    if "ERROR: AddressSanitizer" in err:
        kind = "heap-use-after-free" if "heap-use-after-free" in err else "double-free" if "double-free" in err else "AddressSanitizer error"
        return kind
    if "LeakSanitizer" in err or "detected memory leaks" in err:
        import re
        m = re.search(r"SUMMARY: AddressSanitizer: (\d+) byte\(s\) leaked in (\d+) allocation", err)
        return "LeakSanitizer: %s bytes leaked in %s allocation(s)" % (m.group(1), m.group(2)) if m else "LeakSanitizer: memory leaks"
    if "leaked reference" in err:
        return "shutdown reports a leaked reference"
    if "SIGSEGV" in err or "Segmentation fault" in err or (g.get("rc") not in (0, None) and g.get("rc", 0) < 0):
        return "the compiled program crashes (segmentation fault) -- access through an invalid pointer"
    if g.get("rc") not in (0, None):
        return "the compiled program ends abnormally (exit status %s): %s" % (g.get("rc"), err.strip().splitlines()[-1][:120] if err.strip() else "")
    return None


def asan_sweep_one(item):
    prog, K = item["prog"], item["K"]
    out = {"runs": 0, "cands": []}
    try:
        dag, txt = fcorpus.generate(prog)
    except Exception:  # noqa
        return out
    rng = random.Random(1)
    for i in range(item["n"]):
        vals = {"t": [0.0, 4.0, 1.0][i % 3], "dt": 1.0, "y": [1.0, 2.0], "<p>s": [1.5, -1.0, 3.0][i % 3]}
        for n in pg.var_roles(prog):
            if n.startswith("<p>") and n not in vals:
                vals[n] = 1.0
        try:
            g = asan_run(prog, txt, vals, K)
        except fsym.Unsupported as e:
            g = {"compile_rc": 1, "compile_err": "fsym: %s" % e}
        if g.get("compile_rc"):
            # "the module compiles" is C03's clause: a module gfortran rejects is skipped here; if the module is fine and
            # only my driver does not compile, that is a harness error
            gm = fdriver.run_gfortran(txt, None, syntax_only=True)
            if gm["compile_rc"] != 0:
                out["module_rejected_by_gfortran"] = out.get("module_rejected_by_gfortran", 0) + 1
                return out
            raise common.HarnessError("the generated driver for %s does not compile: %s" % (prog.get("name"), g["compile_err"][-400:]))
        out["runs"] += 1
        v = sanitizer_verdict(g)
        if v:
            out["cands"].append({"prog": prog, "K": K, "problem": "sanitizer sweep: " + v, "vals": vals})
    return out


def replay(d):
    prog = d["prog"]
    dag, txt = fcorpus.generate(prog)
    rng = random.Random(5)
    cands = [d["vals"]] if d.get("vals") else []
    for _ in range(4):
        cands.append({"t": rng.choice([0.0, 4.0]), "dt": 1.0, "y": [1.0, 2.0], "<p>s": rng.choice([-1.0, 0.5, 1.5, 3.0])})
    for vals in cands:
        vals = dict(vals)
        for n in pg.var_roles(prog):
            if n.startswith("<p>") and n not in vals:
                vals[n] = 1.0
        g = asan_run(prog, txt, vals, d["K"])
        v = sanitizer_verdict(g)
        if v:
            return {"reproduced": True, "sanitizer": v,
                    "detail": "program %s, %d runs + shutdown, inputs %s: %s (model said: %s)" % (prog.get("name"), d["K"], vals, v, d["problem"])}
    return {"reproduced": False, "detail": "no sanitizer report for the replay inputs (model said: %s)" % d["problem"]}


def classify(c, r, open_known):
    for k in open_known:
        if k.get("matcher") == "leak_on_early_exit":
            # narrow: a leak (not a use-after-free / double free), and the program leaves a phase early
            # (fail / switch under a guard) while user-type temporaries are live; the same program with
            # the early exits removed must be clean
            if "Leak" not in (r.get("sanitizer") or "") and "leaked reference" not in (r.get("sanitizer") or ""):
                continue
            prog = c["prog"]
            if not any(op[0] in ("fail", "switch", "restart") for ph in prog["phases"] for op in pg.walk_ops(ph["ops"])):
                continue
            import copy
            p2 = copy.deepcopy(prog)

            def strip(ops):
                out = []
                for op in ops:
                    if op[0] in ("fail", "switch", "restart"):
                        continue
                    if op[0] == "if":
                        op = ["if", op[1], strip(op[2]), strip(op[3]) if op[3] is not None else None]
                    out.append(op)
                return out
            for ph in p2["phases"]:
                ph["ops"] = strip(ph["ops"])
            s, cands, paths = check_program(p2, c.get("K", 2), 60)
            if not cands:
                return k["id"]
    return None


def selftests():
    res = {}
    prog = [p for p in corpus() if p["name"] == "euler"][0]
    s, c, paths = check_program(prog, 2, 40)
    res["baseline_euler_clean"] = not c and paths >= 1
    import dagrt.codegen.fortran as Fo
    orig = Fo.CodeGenerator.emit_user_type_move

    def bad(self, assignee_sym, assignee_fortran_name, sym_kind, expr):
        import re
        n0 = len(self.emitter.code)
        orig(self, assignee_sym, assignee_fortran_name, sym_kind, expr)
        # drop the reference-count increment
        self.emitter.code[n0:] = [l for l in self.emitter.code[n0:] if not re.search(r"=\s*\S+\s*\+\s*1\s*$", l)]
    Fo.CodeGenerator.emit_user_type_move = bad
    try:
        prog2 = [p for p in corpus() if p["name"] == "move_chain"][0]
        s, c, paths = check_program(prog2, 2, 40)
        res["fault_no_refcount_increment_detected"] = bool(c)
    except Exception as e:  # noqa
        res["fault_no_refcount_increment_detected"] = "error: %s" % e
    finally:
        Fo.CodeGenerator.emit_user_type_move = orig
    return res


def main(tier, seed):
    run = Run(PID, tier, seed, "other")
    progs = corpus()
    rng = random.Random(seed)
    nrand = 40 if tier == "quick" else 400
    for i in range(nrand):
        progs.append(fcorpus.random_prog(rng, i))
    # bounded-exhaustive move / overwrite patterns: sequences of <= 2 user-type assignments (thorough: every 4th of the
    # 8470 sequences of <= 3) x yield x control exit
    moves = fcorpus.move_patterns(2) if tier == "quick" else (fcorpus.move_patterns(2) + fcorpus.move_patterns(3)[711::4])
    nmoves = len(moves)
    sweep_progs = progs + (moves[::12] if tier == "quick" else moves[::5])
    progs = progs + moves
    K, max_paths = (3, 80) if tier == "quick" else (4, 300)
    for part in pmap("vf.checks.c12", "work", [{"progs": p, "K": K, "max_paths": max_paths} for p in chunks(progs, max(len(progs) // 4, 1))]):
        run.absorb(part)
    # concrete sanitizer sweep (labelled side check): the compiled module under ASan/LSan on fixed inputs
    sweep = pmap("vf.checks.c12", "asan_sweep_one", [{"prog": p, "K": K, "n": 1 if tier == "quick" else 3} for p in sweep_progs])
    run.extra["asan_sweep_runs"] = sum(x["runs"] for x in sweep)
    for x in sweep:
        for c in x["cands"]:
            run.candidates.append(c)
    run.bounds = {"programs": len(progs), "move_pattern_programs": nmoves, "sanitizer_sweep_programs": len(sweep_progs), "runs_K": K, "max_paths_per_program": max_paths, "user_type_length": fcorpus.UT_LEN}
    run.selftests = selftests()
    if not all(v is True for v in run.selftests.values()):
        run.harness_errors.append("self-test failed: %r" % run.selftests)
    run.assumptions = [
        "heap model of vf/fsym.py: ALLOCATE creates a block, pointer cells hold a block or nothing, DEALLOCATE requires a live block, every dereference checks association and liveness; the model is mine -- every reported violation is confirmed by AddressSanitizer/LeakSanitizer on the compiled module before it is reported",
        "a Fortran STOP ends the program: storage live at that point is not counted as leaked",
        "storage owned by the driver (actual arguments of initialize, the state structure itself) is not the module's",
        "LAPACK-backed built-ins are outside",
    ]
    return run.finish(
        rule="%d Fortran-subset programs with user-type variables: curated + seeded random (temporaries, moves, overwrites, yields of temporaries, guarded "
             "blocks, failures, early phase switches) + %d bounded-exhaustive move patterns (every sequence of <= 2 [thorough: a quarter of those of 3] copies / calls "
             "over {<state>y, u, v} x yield nothing | last target | state x exit plainly | guarded, else fail | last assignment guarded | guarded fail after "
             "the first | guarded switch); each: initialize, K=%d runs, shutdown on symbolic inputs; non-trivial = at least 2 feasible step sequences"
             % (len(progs), nmoves, K),
        explanation="fsym symbolic execution of the emitted module with the heap model; one obligation per path (no memory error, nothing live after shutdown, no leak message)",
        classify=classify, dedup_key=lambda c: (c["prog"].get("name"), c["problem"][:50]))
