"""C01 -- interpreter == generated Python == program order.

For each program of the family PG: CodeBuilder -> DAGCode -> (a) the REAL
NumpyInterpreter, (b) the REAL class exec-ed from the REAL generated Python
text, (c) RefProgram (builder calls carried out in written order) -- all three
run inside ONE explorer path on the same symbolic initial state, so the path
condition is shared (product program).  After every event z3 decides equality
of every field; after every completed/failed step the persistent stores are
compared and no temporary may be left; an escaping error must be of the same
kind."""
import random

import z3

from vf import backends, common, pg, refprog, stmtdsl, symx
from vf.common import Run, pmap, chunks
from vf.symx import Explorer

PID = "C01"
MAX_EVENTS = 24


class Exec:
    """Uniform driver around one executor."""

    def __init__(self, name, machine, gen):
        self.name = name
        self.m = machine
        self.gen = gen

    def step(self):
        try:
            return ("ev", backends.norm_event(next(self.gen)))
        except StopIteration:
            return ("stop",)
        except (symx.Abort, symx.Unmodelled, symx.BudgetExceeded):
            raise
        except refprog.RefUndefined as e:
            return ("refundef", str(e))
        except Exception as e:  # noqa
            return ("exc", backends.error_kind(e), str(e)[:80])


def make_execs(prog, dag, cls, funcs, builtin_stubs, run_kw, concrete=None):
    execs = []
    names = backends.program_persistent_names(prog)
    # (a) interpreter
    it = backends.make_interpreter(dag, funcs, builtin_stubs=builtin_stubs)
    t0, dt0, ctx = backends.initial_values(prog, concrete=concrete)
    it.set_up(t_start=t0, dt_start=dt0, context=ctx)
    execs.append(Exec("interpreter", it, it.run(**run_kw)))
    # (b) generated class
    m = backends.make_generated(cls, funcs, builtin_stubs=builtin_stubs)
    t0, dt0, ctx = backends.initial_values(prog, concrete=concrete)
    m.set_up(t_start=t0, dt_start=dt0, context=ctx)
    execs.append(Exec("generated", m, m.run(**run_kw)))
    # (c) reference
    rfuncs = dict(funcs)
    if builtin_stubs:
        import dagrt.builtins_python as B
        for n in B.builtins:
            rfuncs[n] = backends.sym_builtin_stub(n)
    else:
        import numpy as np
        rfuncs["<builtin>len"] = lambda x: np.size(x)
        rfuncs["<builtin>norm_2"] = lambda x: abs(x) if np.isscalar(x) else np.linalg.norm(x, 2)
    r = refprog.RefProgram(prog, rfuncs)
    t0, dt0, ctx = backends.initial_values(prog, concrete=concrete)
    r.set_up(t0, dt0, ctx)
    execs.append(Exec("reference", r, r.run(**run_kw)))
    return execs, names


def stores(execs, names):
    it, m, r = execs[0].m, execs[1].m, execs[2].m
    si, left = backends.persistent_interp(it)
    sg, extra = backends.persistent_generated(m, names)
    sr = r.persistent()
    return si, sg, sr, left, extra


def compare(ex, prover, execs, names, init_of=None):
    """Run the three executors in lock step.  prover(cond) -> 'valid' |
    'refuted' | 'unknown'.  Returns None or a mismatch description."""
    nev = 0
    if init_of is None:
        _roles = pg.var_roles(execs[2].m.prog)
        # the initial value of a persistent name, in the same shape the executors received it (an array state is an array of
        # its initial elements: comparing it with ONE scalar symbol made an untouched array look changed -- false alarm corrected)
        init_of = lambda k: stmtdsl.make_value(k, _roles.get(k, "num"), "init_")  # noqa
    while nev < MAX_EVENTS:
        outs = [e.step() for e in execs]
        nev += 1
        if any(o[0] == "refundef" for o in outs):
            return "INVALID-PROGRAM"
        kinds = [o[0] for o in outs]
        if any(o[0] == "exc" and o[1] in ("!ZeroDivisionError", "!OverflowError") for o in outs):
            return "INCONCLUSIVE-ARITHMETIC"
        if (outs[2][0] == "exc" and outs[2][1] == "!IndexError" and kinds[0] == kinds[1] != "exc"
                and _flatten_drops_subscript(execs[2].m.prog)):
            # Assign flattens its right-hand side when it is built: x[i]*0 is stored as 0, so the
            # subscript the reference evaluates (and finds out of range) does not exist in the program
            # both implementations run.  They agree with each other; the reference is stricter than
            # the written program's stored form here (false alarm corrected, DESIGN.md 12.4).
            return "INCONCLUSIVE-ARITHMETIC"
        if len(set(kinds)) != 1:
            return "event %d: %s" % (nev, ", ".join("%s=%s" % (e.name, o[:2]) for e, o in zip(execs, outs)))
        if kinds[0] == "stop":
            return None
        if any(o[0] == "exc" and o[1] in ("!ZeroDivisionError", "!OverflowError") for o in outs):
            return "INCONCLUSIVE-ARITHMETIC"
        if kinds[0] == "exc":
            ks = [o[1] for o in outs]
            if len(set(ks)) != 1:
                return "event %d: different errors: %s" % (nev, ", ".join("%s=%s(%s)" % (e.name, o[1], o[2]) for e, o in zip(execs, outs)))
            return None
        evs = [o[1] for o in outs]
        for other, e2 in zip(execs[:2], evs[:2]):
            v = prover(symx.sym_eq(e2, evs[2]))
            if v == "refuted":
                return "event %d differs: %s=%r reference=%r" % (nev, other.name, e2, evs[2])
        if evs[2][0] in ("StepCompleted", "StepFailed"):
            si, sg, sr, left, extra = stores(execs, names)
            if left:
                return "event %d: interpreter keeps per-step variables %s" % (nev, left)
            if extra:
                return "event %d: generated object has unexpected persistent attributes %s" % (nev, extra)
            for nm, s in (("interpreter", si), ("generated", sg)):
                missing = set(sr) - set(s)
                if nm == "generated" and missing and not (set(s) - set(sr)):
                    # the generated class only stores the <state> names its text mentions (a statement
                    # may have been simplified away when it was built): a missing name is accepted iff
                    # the reference never changed it
                    for k in sorted(missing):
                        if not k.startswith("<state>") or prover(symx.sym_eq(sr[k], init_of(k))) == "refuted":
                            return "event %d: generated lacks persistent %s which the reference changed" % (nev, k)
                elif set(s) != set(sr):
                    return "event %d: %s persistent names %s, reference %s" % (nev, nm, sorted(s), sorted(sr))
                for k in s:
                    v = prover(symx.sym_eq(s[k], sr[k]))
                    if v == "refuted":
                        return "event %d: persistent %s differs: %s=%r reference=%r" % (nev, k, nm, s[k], sr[k])
            np_ = [execs[0].m.next_phase, execs[1].m.next_phase, execs[2].m.next_phase]
            if len(set(np_)) != 1:
                return "event %d: next_phase differs %s" % (nev, np_)
    return None


_FD_CACHE = {}


def _flatten_drops_subscript(prog):
    k = id(prog)
    if k not in _FD_CACHE:
        _FD_CACHE[k] = (prog, pg.prog_flatten_drops(prog, "sub"))
    return _FD_CACHE[k][1]


def run_kwargs(mode, K, concrete=None):
    if mode == "max_steps":
        return {"max_steps": K}
    if concrete is not None:
        return {"t_end": concrete["t_end"], "max_steps": K}
    return {"t_end": symx.SymNum(z3.Int("init_t_end")), "max_steps": K}


def harness(prog, dag, cls, mode, K):
    def h(ex):
        backends.assume_ranges(ex, prog)
        funcs = backends.sym_user_functions()
        execs, names = make_execs(prog, dag, cls, funcs, True, run_kwargs(mode, K))
        state = {"model": None}

        def prover(cond):
            v, m = ex.prove(cond)
            if v == "refuted":
                state["model"] = m
            return v
        bad = compare(ex, prover, execs, names)
        if bad is None:
            return None
        if bad in ("INVALID-PROGRAM", "INCONCLUSIVE-ARITHMETIC"):
            return "invalid"
        m = state["model"] or ex.path_model()
        return {"prog": prog, "mode": mode, "K": K, "problem": bad,
                "init": concrete_init(prog, m), "ufs": backends.uf_tables_from_model(m) if m is not None else {}}
    return h


def concrete_init(prog, model):
    if model is None:
        return None
    roles = pg.var_roles(prog)

    def val(t):
        return symx.model_value(model, t)
    ctx = {}
    for name, role in roles.items():
        if not name.startswith("<state>"):
            continue
        key = name[len("<state>"):]
        if role == "arr":
            ctx[key] = [val(z3.Int("init_%s[%d]" % (name, k))) for k in range(3)]
        elif role == "bool":
            ctx[key] = bool(val(z3.Bool("init_" + name)))
        else:
            ctx[key] = val(z3.Int("init_" + name))
    return {"t0": val(z3.Int("init_t")), "dt0": val(z3.Int("init_dt")), "t_end": val(z3.Int("init_t_end")),
            "context": ctx}


def check_program(prog, modes, K, max_paths):
    """Returns (stats, candidate|None, info)."""
    from vf.symx import Stats
    st = Stats()
    try:
        dag, _ = pg.build_dag(prog)
        cls = backends.generate_class(dag)
    except Exception as e:  # noqa
        st.obligations += 1
        st.refuted += 1
        return st, {"prog": prog, "mode": "build", "K": 0,
                    "problem": "building / generating raised %s: %s" % (type(e).__name__, str(e)[:200]),
                    "init": None, "ufs": {}}, {"paths": 0, "invalid": 0}
    cand = None
    paths = 0
    invalid = 0
    for mode in modes:
        ex = Explorer(timeout_ms=1500, max_paths=max_paths, max_decisions=250, wall_s=20)
        ex.label = "%s/%s" % (prog.get("name"), mode)
        res = ex.explore(harness(prog, dag, cls, mode, K))
        st.add(ex.stats)
        paths += ex.stats.paths
        for trail, r in res:
            if r == "invalid":
                invalid += 1
            elif r is not None and cand is None:
                cand = r
        if cand is not None:
            break
    return st, cand, {"paths": paths, "invalid": invalid}


def work(item):
    tr = common.FunctionTrace()
    tr.start()
    from vf.symx import Stats
    st = Stats()
    cands, samples = [], []
    n = nontriv = 0
    invalid_paths = 0
    for prog in item["progs"]:
        s, cand, info = check_program(prog, item["modes"], item["K"], item["max_paths"])
        st.add(s)
        n += 1
        invalid_paths += info["invalid"]
        if info["paths"] >= 2:
            nontriv += 1
        if cand is not None:
            cands.append(cand)
        if len(samples) < 1 and info["paths"] >= 3:
            samples.append({"program": prog.get("name"), "ops": pg.count_ops(prog), "paths": info["paths"]})
    tr.stop()
    return {"stats": st.as_dict(), "candidates": cands, "evaluations": n, "programs": n,
            "distinct_nontrivial": nontriv, "samples": samples, "functions": sorted(tr.seen),
            "extra": {"invalid_program_paths": invalid_paths}}


# ---------------------------------------------------------------------------

def replay_once(prog, mode, K, init, ufs):
    dag, _ = pg.build_dag(prog)
    cls = backends.generate_class(dag)
    funcs = backends.concrete_user_functions(ufs)
    execs, names = make_execs(prog, dag, cls, funcs, False, run_kwargs(mode, K, concrete=init), concrete=init)

    def prover(cond):
        return "valid" if cond is True or (not isinstance(cond, bool) and z3.is_true(z3.simplify(cond))) else "refuted"

    def init_of(k):
        v = init["context"].get(k[len("<state>"):], 0)
        if isinstance(v, list):
            import numpy as np
            v = np.array(v, dtype=object)
        return v
    return compare(None, prover, execs, names, init_of)


def replay(d):
    prog = d["prog"]
    if d["mode"] == "build":
        try:
            dag, _ = pg.build_dag(prog)
            backends.generate_class(dag)
        except Exception as e:  # noqa
            return {"reproduced": True, "detail": "program %s: %s: %s" % (prog.get("name"), type(e).__name__, e)}
        return {"reproduced": False, "detail": "builds on replay"}
    inits = []
    if d.get("init"):
        inits.append(d["init"])
    rng = random.Random(5)
    roles = pg.var_roles(prog)
    for _ in range(12):
        ctx = {}
        for name, role in roles.items():
            if name.startswith("<state>"):
                key = name[7:]
                if role == "arr":
                    ctx[key] = [rng.randint(-3, 3) for _ in range(3)]
                elif name == "<state>n":
                    ctx[key] = rng.randint(0, 3)
                else:
                    ctx[key] = rng.randint(-4, 6)
        inits.append({"t0": rng.randint(0, 2), "dt0": rng.randint(1, 2), "t_end": rng.randint(1, 5), "context": ctx})
    last = None
    for init in inits:
        try:
            bad = replay_once(prog, d["mode"], d["K"], init, d.get("ufs") or {})
        except Exception as e:  # noqa
            import traceback
            bad = None
            last = "replay machinery raised %s: %s %s" % (type(e).__name__, e, traceback.format_exc()[-600:])
        if bad is not None and bad not in ("INVALID-PROGRAM", "INCONCLUSIVE-ARITHMETIC"):
            return {"reproduced": True, "detail": "program %s (%s, K=%d) init %s: %s" % (prog.get("name"), d["mode"], d["K"], init, bad)}
    return {"reproduced": False, "detail": "all three executors agree on replay (%s)" % last}


def classify(c, r, open_known):
    return None


def selftests():
    import dagrt.language as L
    res = {}
    prog = [p for p in pg.corpus() if p["name"] == "if_else_fail"][0]
    s, cand, info = check_program(prog, ["max_steps"], 2, 200)
    res["baseline_if_else_fail_agrees"] = cand is None and info["paths"] >= 4
    orig = L.CodeBuilder.else_
    from contextlib import contextmanager

    @contextmanager
    def bad_else(self):
        self._conditional_expression_stack.append(self._last_if_block_conditional_expression)
        yield
        self._conditional_expression_stack.pop()
        self._last_if_block_conditional_expression = None
    L.CodeBuilder.else_ = bad_else
    try:
        s, cand, info = check_program(prog, ["max_steps"], 2, 200)
        res["fault_else_not_negated_detected"] = cand is not None
    finally:
        L.CodeBuilder.else_ = orig
    import dagrt.codegen.expressions as E
    orig_if = E.PythonExpressionMapper.map_if

    def bad_if(self, expr, enclosing_prec):
        from pymbolic.mapper.stringifier import PREC_NONE
        return "{then} if {cond} else {else_}".format(
            then=self.rec(expr.then, PREC_NONE), cond=self.rec(expr.condition, PREC_NONE),
            else_=self.rec(expr.else_, PREC_NONE))
    E.PythonExpressionMapper.map_if = bad_if
    try:
        prog2 = [p for p in pg.corpus() if p["name"] == "cond_expr_nested"][0]
        s, cand, info = check_program(prog2, ["max_steps"], 1, 200)
        res["fault_if_precedence_detected"] = cand is not None
    finally:
        E.PythonExpressionMapper.map_if = orig_if
    return res


def main(tier, seed):
    run = Run(PID, tier, seed, "translation_validation")
    progs = pg.corpus()
    ncur = len(progs)
    small = pg.small_programs()
    rng = random.Random(seed)
    if tier == "quick":
        K, max_paths, nrand = 3, 150, 250
        small = small[::3]
    else:
        K, max_paths, nrand = 4, 400, 1200
    progs += small
    g = pg.ProgGen(rng, max_ops=8 if tier == "quick" else 12, lookups=True, bare_conditions=True)
    for i in range(nrand):
        progs.append(g.program(i))
    items = [{"progs": p, "modes": ["max_steps", "t_end"], "K": K, "max_paths": max_paths}
             for p in chunks(progs, common.NPROC * 6)]
    for part in pmap("vf.checks.c01", "work", items):
        run.absorb(part)
    run.bounds = {"steps_K": K, "max_events_per_run": MAX_EVENTS, "curated_programs": ncur,
                  "small_exhaustive_programs": len(small), "random_programs": nrand,
                  "max_paths_per_program_and_mode": max_paths, "run_modes": ["max_steps=K", "t_end symbolic and max_steps=K"],
                  "array_length": 3, "loop_bound_state_range": "0..3"}
    run.selftests = selftests()
    if not all(run.selftests.values()):
        run.harness_errors.append("self-test failed: %r" % run.selftests)
    run.assumptions = [
        "program validity predicate (DESIGN 3.5): reads definitely assigned, logical operators on booleans, no array aliasing, no identifier starts with dagrt_",
        "user functions and built-ins are pure uninterpreted functions of their arguments; built-in stubs have the real built-in's Python signature so that argument binding is compared exactly",
        "`/` and `**` uninterpreted; non-integer literals are named constants (equal names <=> the printer round-tripped the literal)",
        "state values are mathematical integers; arrays have length 3",
        "paths on which the reference semantics is undefined (read of an unassigned variable) are outside the family and counted as invalid_program_paths",
    ]
    return run.finish(
        rule="programs: %d curated (every repository test program shape and the idioms the property names) + %d of the bounded-exhaustive "
             "small family (<=3 ops over 7 atoms, guarded variants) + %d seeded random programs (<=%d ops, <=3 phases); each run under "
             "max_steps and under a symbolic end time; non-trivial = at least 2 feasible paths"
             % (ncur, len(small), nrand, 8 if tier == "quick" else 12),
        explanation="three executors in one explorer path; per event and per persistent variable one z3 validity query; candidates replayed "
                    "on concrete integers with table-driven functions against the unmodified API",
        classify=classify)
