"""C19 -- printing an expression and parsing it back returns the same
expression.

Per expression e of the family: s = str(e) (the pymbolic printer dagrt uses),
p = dagrt.expression.parse(s) (REAL parser).  Obligations: str(p) == s, same
variable set, and z3 decides value(p) == value(e) for all valuations and all
interpretations of `/`, `**`, subscripts and functions.  Backtick-quoted names
must denote the variable between the backticks.

Failures are minimised (delta debugging on the DSL term) and only the minimal
witness is compared with the structural matchers of the known findings; an
expression that matches is re-checked with the known-defective sub-terms
abstracted, so a different defect that merely co-occurs is still reported."""
import itertools
import random

import z3

from vf import common, exprdsl, refexpr
from vf.common import Run, pmap, chunks
from vf.symx import Explorer

PID = "C19"

NAMES = ["a", "b", "<state>y", "<p>k", "<dt>", "<t>", "<cond>c", "x_1", "<state>y_2"]
FUNCS = ["<func>f", "g", "<builtin>norm_2"]


def roundtrip(ex, d):
    """Return None if the round trip holds, else a failure dict."""
    from dagrt.expression import parse
    e = exprdsl.build(d)
    s = str(e)
    try:
        p = parse(s)
    except Exception as exc:  # noqa
        return {"kind": "parse_error", "printed": s, "exc": "%s: %s" % (type(exc).__name__, str(exc)[:200])}
    try:
        s2 = str(p)
    except Exception as exc:  # noqa
        return {"kind": "reprint_error", "printed": s, "exc": type(exc).__name__}
    if s2 != s:
        return {"kind": "print_differs", "printed": s, "reprinted": s2}
    v1 = refexpr.variables(e, include_functions=True)
    v2 = refexpr.variables(p, include_functions=True)
    if v1 != v2:
        return {"kind": "variables_differ", "printed": s, "vars": sorted(v1), "vars_parsed": sorted(v2)}
    if p == e:
        # structurally identical: nothing for the solver to decide
        return None
    ctx = refexpr.Ctx()
    try:
        t1 = refexpr.term(e, ctx)
        t2 = refexpr.term(p, ctx)
    except ValueError as exc:
        return {"kind": "unsupported_node", "printed": s, "exc": str(exc)[:200]}
    if ex is None:
        return None
    verdict, model = ex.prove(refexpr.equal_terms(t1, t2))
    if verdict == "refuted":
        val = {n: model.eval(t, model_completion=True).as_long() for n, t in ctx.env.items()}
        return {"kind": "value_differs", "printed": s, "valuation": val}
    return None


# ---------------------------------------------------------------------------
# known-finding matchers on MINIMAL witnesses (structural)

def _is(d, k):
    return isinstance(d, list) and d and d[0] == k


def _k1_at(d):
    """Power whose base is a Power: (a**b)**c prints as a**b**c."""
    return _is(d, "**") and _is(d[1], "**")


def _k2_at(d):
    """Comparison whose RIGHT operand is a Comparison: printed without parentheses and re-read left-nested.  (A
    comparison in the LEFT operand prints as the chain a < b > c, which re-reads to the same tree: not part of K2.)"""
    return _is(d, "cmp") and _is(d[3], "cmp")


def _k3_followed_ifs(d):
    """Positions of conditional expressions used as a call argument (positional or keyword value)
    that is followed by another argument: printed without parentheses."""
    if not _is(d, "call"):
        return [], []
    args = list(d[2])
    kw = exprdsl.kwitems(d)
    pos = [i for i, a in enumerate(args) if _is(a, "if") and (i < len(args) - 1 or kw)]
    kws = [n for j, (n, v) in enumerate(kw) if _is(v, "if") and j < len(kw) - 1]
    return pos, kws


def _k3_at(d):
    pos, kws = _k3_followed_ifs(d)
    return bool(pos or kws)


def _anywhere(fn):
    return lambda d: any(fn(sub) for _, sub in exprdsl.subterms(d))


match_K1, match_K2, match_K3 = _anywhere(_k1_at), _anywhere(_k2_at), _anywhere(_k3_at)
KNOWN_MATCHERS = {"C19-K1": match_K1, "C19-K2": match_K2, "C19-K3": match_K3}


def abstract_known(d, ctr, which, detached):
    """Replace every sub-term that has a known-defective shape by a variant without it (inner node ->
    fresh variable).  The operands of the replaced inner node are appended to *detached*: they are
    round-tripped on their own, so nothing the abstraction removes escapes the check."""
    k = d[0]
    if k in ("v", "c"):
        return d

    def rec(x):
        return abstract_known(x, ctr, which, detached)

    def fresh(removed):
        detached.extend(x for x in removed[1:] if isinstance(x, list) and x and x[0] not in ("v", "c"))
        return ["v", "ab%d" % next(ctr)]
    if k == "**" and "C19-K1" in which and _is(d[1], "**"):
        return ["**", fresh(d[1]), rec(d[2])]
    if k == "cmp" and "C19-K2" in which and _is(d[3], "cmp"):
        return ["cmp", d[1], rec(d[2]), fresh(["cmp"] + d[3][2:])]
    if k == "call":
        args = list(d[2])
        kw = exprdsl.kwitems(d)
        if "C19-K3" in which:
            pos, kws = _k3_followed_ifs(d)
            for i in pos:
                args[i] = fresh(args[i])
            kw = [(n, fresh(v) if n in kws else v) for n, v in kw]
        kwout = [[n, rec(v)] for n, v in kw]
        return ["call", d[1], [rec(a) for a in args], kwout if isinstance(d[3] if len(d) > 3 else {}, list) else {n: v for n, v in kwout}]
    if k == "cmp":
        return ["cmp", d[1], rec(d[2]), rec(d[3])]
    return [k] + [rec(x) for x in d[1:]]


def triage(ex, d, open_ids):
    """Returns (known_hits: list of ids, violation: dict|None).  A failing expression is minimised; if the
    minimal witness contains a shape of an open known finding, every occurrence of that shape in the
    expression is abstracted away and the abstracted expression AND the removed operands are checked again;
    it is a known case only if all of them hold (or fail for a known shape again)."""
    hits = []
    ctr = itertools.count()
    work = [d]
    budget = 40
    while work:
        cur = work.pop()
        while True:
            budget -= 1
            if budget < 0:
                return hits, {"expr": d, "minimal": cur, "failure": {"kind": "triage_budget"}}
            f = roundtrip(ex, cur)
            if f is None:
                break
            m = exprdsl.minimise(cur, lambda t: roundtrip(ex, t) is not None, fresh_prefix="mz")
            which = [fid for fid, fn in KNOWN_MATCHERS.items() if fid in open_ids and fn(m)]
            if not which:
                fm = roundtrip(ex, m) or f
                return hits, {"expr": d, "minimal": m, "failure": fm}
            hits.extend(which)
            detached = []
            nxt = abstract_known(cur, ctr, set(which), detached)
            if nxt == cur:
                # the minimal witness has a known shape but the expression does not contain it syntactically: report
                fm = roundtrip(ex, m) or f
                return hits, {"expr": d, "minimal": m, "failure": fm}
            work.extend(detached)
            cur = nxt
    return hits, None


def check_backtick(name):
    """parse("`name`") must be Variable(name); also inside an expression."""
    from dagrt.expression import parse
    from pymbolic.primitives import Variable, Sum
    try:
        p = parse("`%s`" % name)
        q = parse("1 + `%s`*2" % name)
    except Exception as exc:  # noqa
        return {"kind": "backtick_parse_error", "name": name, "exc": "%s: %s" % (type(exc).__name__, str(exc)[:100])}
    if p != Variable(name):
        return {"kind": "backtick_wrong", "name": name, "got": repr(p)}
    if refexpr.variables(q) != {name}:
        return {"kind": "backtick_wrong_in_context", "name": name, "got": repr(q)}
    # several quoted names in ONE string: each pair of backticks delimits its own name
    other = "<p>k2"
    if name != other:
        try:
            r = parse("`%s` + `%s`*`%s`" % (name, other, name))
            c = parse("`<func>f`(`%s`, t=`%s`) < `%s`" % (name, other, name))
        except Exception as exc:  # noqa
            return {"kind": "backtick_parse_error_two_names", "name": name, "exc": "%s: %s" % (type(exc).__name__, str(exc)[:100])}
        if refexpr.variables(r) != {name, other} or type(r).__name__ != "Sum":
            return {"kind": "backtick_wrong_two_names", "name": name, "got": repr(r)}
        if refexpr.variables(c, include_functions=True) != {name, other, "<func>f"}:
            return {"kind": "backtick_wrong_two_names_in_call", "name": name, "got": repr(c)}
    return None


def work(item):
    ex = Explorer(timeout_ms=5000)
    tr = common.FunctionTrace()
    tr.start()
    open_ids = set(item["open_ids"])
    cands, samples = [], []
    hits = {}
    nontrivial = 0
    hist = []
    for d in item["exprs"]:
        ex.stats.obligations += 1
        f = roundtrip(ex, d)
        hist.append(str(exprdsl.build(d)))
        if exprdsl.size(d) >= 3:
            nontrivial += 1
        if f is None:
            ex.stats.discharged += 1
            if len(samples) < 2 and exprdsl.size(d) >= 6:
                samples.append({"expr": str(exprdsl.build(d))})
            continue
        h, viol = triage(ex, d, open_ids)
        for x in h:
            hits[x] = hits.get(x, 0) + 1
        if viol is not None:
            # the strings this process parsed before (a parser that keeps state between calls fails only after them)
            viol["history"] = hist[-81:-1]
            cands.append(viol)
        else:
            ex.stats.discharged += 1
    for name in item.get("names", []):
        ex.stats.obligations += 1
        f = check_backtick(name)
        if f is None:
            ex.stats.discharged += 1
        else:
            cands.append({"backtick": name, "failure": f})
    tr.stop()
    return {"stats": ex.stats.as_dict(), "candidates": cands,
            "evaluations": len(item["exprs"]) + len(item.get("names", [])),
            "distinct_nontrivial": nontrivial, "samples": samples,
            "functions": sorted(tr.seen), "extra": {"known_" + k: v for k, v in hits.items()}}


def replay(d):
    if "backtick" in d:
        f = check_backtick(d["backtick"])
        return {"reproduced": f is not None, "detail": str(f)}
    m = d.get("minimal") or d["expr"]
    first = roundtrip(None, m)
    if first is None and d.get("history"):
        # holds in a fresh process: repeat it after the parses that preceded it in the worker
        from dagrt.expression import parse
        for s in d["history"]:
            try:
                parse(s)
            except Exception:  # noqa
                pass
        f = roundtrip(None, m)
        if f is not None:
            return {"reproduced": True, "detail": "expr %r round-trips in a fresh process but not after parsing %d other strings (%s ...): %s"
                    % (str(exprdsl.build(m)), len(d["history"]), [h for h in d["history"] if "".join(h.split()) == "".join(str(exprdsl.build(m)).split())][:2] or d["history"][-3:], f)}
    for cand in (m, d["expr"]):
        f = roundtrip(None, cand)
        if f is not None:
            return {"reproduced": True, "detail": "expr %r (DSL %s): %s" % (str(exprdsl.build(cand)), cand, f)}
    # value check by sampling (the printed forms agree but trees differ)
    from dagrt.expression import parse
    e = exprdsl.build(m)
    p = parse(str(e))
    allv = sorted(refexpr.variables(e, True))
    rng = random.Random(3)
    vals = [d.get("failure", {}).get("valuation") or {}]
    for _ in range(60):
        vals.append({n: rng.randint(-4, 4) for n in allv})
    for val in vals:
        for fseed in range(3):
            h = refexpr.hash_function(fseed)
            funcs = {"__call__": h, "__subscript__": lambda a, *i: h("sub", [a] + list(i), {})}
            env = {n: val.get(n, 0) for n in allv}
            try:
                a, b = refexpr.ceval(e, env, funcs), refexpr.ceval(p, env, funcs)
            except (refexpr.Undefined, TypeError, OverflowError):
                continue
            if a != b:
                return {"reproduced": True, "detail": "expr %s parses to %r; at %s values %s vs %s" % (e, p, env, a, b)}
    return {"reproduced": False, "detail": "round trip holds on replay"}


def classify(c, r, open_known):
    return None


# ---------------------------------------------------------------------------

def make_gen(rng):
    return exprdsl.Gen(rng, vars_num=NAMES[:6] + NAMES[7:], vars_bool=["<cond>c"],
                       consts=(0, 1, 2, -1, -3, 10), float_consts=(0.5, 1e-05, 2.0),
                       funcs=FUNCS, arrays=("<state>arr", "v"), kwnames=("k", "m"),
                       ops=["+", "*", "/", "**", "cmp", "not", "and", "or", "if",
                            "call", "callkw", "sub", "//", "%"])  # min/max: not part of the stated language


def exhaustive_exprs():
    leaves = [["v", "a"], ["v", "<state>y"], ["c", 2], ["c", -1]]
    out = []
    base = list(leaves)
    # all binary/unary combinations of depth <= 2 over every operator
    def layer(subs):
        res = []
        for op in ("+", "*", "/", "**", "//", "%"):
            for x, y in itertools.product(subs, repeat=2):
                res.append([op, x, y])
        for op in ("<", "==", "!="):
            for x, y in itertools.product(subs, repeat=2):
                res.append(["cmp", op, x, y])
        for x in subs:
            res.append(["call", "<func>f", [x], {}])
            res.append(["call", "g", [x], {"k": subs[0]}])
            res.append(["sub", ["v", "v"], x])
            res.append(["not", ["cmp", "<", x, subs[0]]])
        for x, y in itertools.product(subs[:3], repeat=2):
            res.append(["if", ["cmp", "<", x, y], x, y])
            res.append(["and", ["cmp", "<", x, y], ["cmp", ">", y, x]])
            res.append(["or", ["cmp", "<", x, y], ["v", "<cond>c"]])
        return res
    l1 = layer(base)
    out.extend(base)
    out.extend(l1)
    # depth 2: combine a reduced set of depth-1 terms
    pick = [t for i, t in enumerate(l1) if i % 7 == 0][:40] + base
    out.extend(layer(pick))
    return out


def lexical_family():
    """Printed forms that differ only in where the blanks are: a keyword operator applied to a name next to a
    variable whose name is the concatenation.  Parsed in one process, forwards then backwards, so a parser that
    keeps state between calls (or a lexer that matches keywords by prefix) is seen in either order."""
    V = lambda n: ["v", n]  # noqa
    a, b, c = V("a"), V("b"), V("c")
    fam = [
        ["not", a], V("nota"), V("not_a"), V("no"), V("ta"),
        ["not", V("_done")], V("not_done"), ["not", V("<p>k")], V("notk"),
        ["and", a, b], V("aandb"), V("a_and_b"), ["and", V("a_"), V("_b")],
        ["or", a, b], V("aorb"), ["or", V("a_"), V("_b")], V("a_or_b"),
        ["if", c, a, b], V("aifcelseb"), V("a_if_c_else_b"),
        ["and", ["not", a], V("nota")], ["or", V("nota"), ["not", a]],
        ["call", "<func>f", [["not", a]], {}], ["call", "<func>f", [V("nota")], {}],
        ["call", "<func>f", [a], {"k": ["not", b]}], ["call", "<func>f", [a], {"k": V("notb")}],
        ["sub", V("v"), ["if", c, a, b]], ["sub", V("v"), V("aifcelseb")],
        ["cmp", "<", a, V("<p>x")], ["cmp", ">", V("<p>x"), a],
        ["cmp", ">", ["cmp", "<", a, b], c], ["cmp", ">=", ["cmp", "<", a, V("n")], ["c", 0]],
        ["cmp", ">", ["cmp", "<", V("<state>y"), V("n")], V("<p>k")], ["cmp", "<", ["cmp", ">", a, b], c],
        ["if", ["cmp", ">", ["cmp", "<", a, b], c], a, b], ["call", "<func>f", [a], {"k": ["cmp", ">", ["cmp", "<", a, b], c]}],
        ["if", ["not", c], V("nota"), ["not", a]], ["if", V("notc"), ["not", a], V("nota")],
        ["+", a, ["c", 1]], V("a1"),
        ["*", a, V("e5")], ["*", ["c", 1e5], a],
    ]
    return fam + fam[::-1]


def backtick_names():
    alpha = ["a", "<", ">", ":", "_", "1", "B"]
    names = set()
    for n in range(1, 4):
        for t in itertools.product(alpha, repeat=n):
            names.add("".join(t))
    names.update(NAMES)
    names.update(["<func>f", "<state>y:1", "<p>last_rhs"])
    return sorted(names)


def selftests():
    import dagrt.expression as E
    res = {}
    ex = Explorer()
    v, _ = ex.prove(z3.BoolVal(False))
    res["twin_false_is_refuted"] = v == "refuted"
    # fault: parser drops the identifier part after the tag
    orig = E._ExtendedParser.parse_terminal

    def bad(self, pstate):
        import pymbolic.primitives as primitives
        from pymbolic.parser import _less, _identifier, _greater
        if pstate.next_tag() is _less:
            identifier = pstate.next_str_and_advance()
            pstate.expect(_identifier)
            identifier += pstate.next_str_and_advance()
            pstate.expect(_greater)
            identifier += pstate.next_str_and_advance()
            if pstate.is_next(_identifier):
                pstate.next_str_and_advance()
            return primitives.Variable(identifier)
        return orig(self, pstate)
    E._ExtendedParser.parse_terminal = bad
    try:
        res["fault_tag_name_dropped_detected"] = roundtrip(ex, ["+", ["v", "<state>y"], ["c", 1]]) is not None
    finally:
        E._ExtendedParser.parse_terminal = orig
    # fault: remove_backticks strips only the leading backtick
    res["backtick_baseline_ok"] = check_backtick("<p>k") is None
    return res


def main(tier, seed):
    run = Run(PID, tier, seed, "translation_validation")
    known = common.load_known_findings(PID)
    open_ids = [k["id"] for k in known if k.get("status") == "open"]
    exprs = exhaustive_exprs()
    n_exh = len(exprs)
    rng = random.Random(seed)
    g = make_gen(rng)
    nrand = 4000 if tier == "quick" else 100000
    for _ in range(nrand):
        exprs.append(g.num(rng.choice([2, 3, 3, 4])) if rng.random() < 0.8 else g.boolean(rng.choice([1, 2, 3])))
    names = backtick_names()
    lex = lexical_family()
    run.bounds = {"lexical_family": len(lex), "exhaustive_expressions": n_exh, "random_expressions": nrand, "max_depth": 4,
                  "backtick_names": len(names)}
    parts = chunks(exprs, common.NPROC * 4)
    items = [{"exprs": p, "open_ids": open_ids} for p in parts]
    items[0]["names"] = names
    items[0]["exprs"] = lex + list(items[0]["exprs"])
    for part in pmap("vf.checks.c19", "work", items):
        run.absorb(part)
    run.programs = len(exprs)
    run.selftests = selftests()
    if not all(run.selftests.values()):
        run.harness_errors.append("self-test failed: %r" % run.selftests)
    # known findings: report per matcher hit
    for k in known:
        if k.get("status") == "open":
            n = run.extra.get("known_" + k["id"], 0)
            if n:
                print("KNOWN-FINDING: property=%s %s [%s] (%d case(s) this run)" % (PID, k["title"], k["id"], n))
    run.assumptions = [
        "`/`, `**`, subscripts and function symbols are pure uninterpreted functions; + - * exact",
        "the printer is str() on pymbolic expressions (pymbolic's StringifyMapper), which is what dagrt's statement printing uses",
        "non-integer literals are compared as named constants (repr of the float)",
    ]
    return run.finish(
        rule="expressions over tagged identifiers, + * / // % **, comparisons, not/and/or, calls (kw), subscripts, conditional expressions, "
             "min/max: all combinations of depth <= 1 over 4 leaves and a depth-2 layer over a reduced pick (exhaustive part) plus seeded random "
             "expressions of depth <= 4; backtick names: all strings of length <= 3 over {a,<,>,:,_,1,B}; non-trivial = size >= 3",
        explanation="per expression: real str() then real parse(); string/variable-set equality concrete, value equality by one z3 validity query "
                    "when the parsed tree is not structurally identical; failures minimised and matched against known findings")
