"""C05 -- lowering a phase to structured code keeps order, guards and loops.

The REAL create_ast_from_phase (incl. simplify_ast) and the REAL generic walker
StructuredCodeGenerator.lower_node (a recording subclass) run on hand-built
phases.  Symbolic: the truth value of every guard flag (z3 Bool) and the order
in which the phase's statements are stored (symbolic ranks; every permutation
is a path).  Enumerated: statement kinds, guards, loop nests, the acyclic edge
relation.  Per path: the tree is flattened by an independent walker to
[(leaf, enclosing loops, path condition)]; leaves = the non-Nop statements,
once each; loops = the declared loops, outermost first, with the declared
bounds; z3 proves  path condition <=> declared guard  for all flag valuations;
positions respect every dependency edge; the tree is identical on all storage
orders; the walker's callback sequence is the in-order traversal."""
import itertools
import random

import z3

from vf import common, symx
from vf.common import Run, pmap, chunks
from vf.symx import Explorer
from vf.checks.c06 import cond_formula
from vf.checks.c14 import symbolic_sort

PID = "C05"

KINDS = ["assign", "loop1", "loop2", "loop3", "loop4", "nop", "yield", "fail"]
GUARDS = ["T", "c0", "!c0", "c0&c1", "c1&!c0", "c2", "!!c0", "!!!c1"]


def build_guard(g):
    from pymbolic.primitives import Variable, LogicalNot, LogicalAnd
    if g == "T":
        return True

    def atom(a):
        # any number of leading negations, nested as written: "!!c0" is not (not c0)
        nneg = len(a) - len(a.lstrip("!"))
        v = Variable("<cond>" + a.lstrip("!"))
        for _ in range(nneg):
            v = LogicalNot(v)
        return v
    parts = [atom(a) for a in g.split("&")]
    return parts[0] if len(parts) == 1 else LogicalAnd(tuple(parts))


def build_stmt(i, kind, guard, deps, sid=None):
    import dagrt.language as L
    from pymbolic.primitives import Variable
    sid = sid or "s%d" % i
    cond = build_guard(guard)
    if kind == "assign":
        return L.Assign(assignee="x%d" % i, assignee_subscript=(), expression=Variable("<state>y") + i,
                        id=sid, depends_on=deps, condition=cond)
    if kind == "loop1":
        return L.Assign(assignee="arr", assignee_subscript=(Variable("i"),), expression=Variable("i") + i,
                        loops=[("i", 0, Variable("n%d" % i))], id=sid, depends_on=deps, condition=cond)
    if kind == "loop2":
        return L.Assign(assignee="arr", assignee_subscript=(Variable("i") + Variable("j"),), expression=Variable("j"),
                        loops=[("i", 1, 3), ("j", Variable("lo"), Variable("i"))], id=sid, depends_on=deps, condition=cond)
    if kind == "loop3":
        # triangular: each bound names the counters of the loops around it
        return L.Assign(assignee="arr", assignee_subscript=(Variable("k"),), expression=Variable("i") + Variable("j"),
                        loops=[("i", 0, Variable("n%d" % i)), ("j", 0, Variable("i") + 1), ("k", Variable("j"), Variable("i") + Variable("j"))],
                        id=sid, depends_on=deps, condition=cond)
    if kind == "loop4":
        return L.Assign(assignee="arr", assignee_subscript=(Variable("l"),), expression=Variable("k"),
                        loops=[("i", 0, 2), ("j", Variable("i"), 3), ("k", 0, Variable("j")), ("l", Variable("k"), Variable("i") + Variable("k"))],
                        id=sid, depends_on=deps, condition=cond)
    if kind == "nop":
        return L.Nop(id=sid, depends_on=deps, condition=cond)
    if kind == "yield":
        return L.YieldState(expression=Variable("<state>y"), component_id="y", time=Variable("<t>"), time_id="t",
                            id=sid, depends_on=deps, condition=cond)
    if kind == "fail":
        return L.FailStep(id=sid, depends_on=deps, condition=cond)
    raise ValueError(kind)


def flatten(node, loops=(), conds=(), out=None):
    """Independent flattening: [(statement, loops tuple, list of (cond, polarity))]."""
    if out is None:
        out = []
    n = type(node).__name__
    if n == "StatementWrapper":
        out.append((node.statement, loops, conds))
    elif n == "NullASTNode":
        pass
    elif n == "Block":
        for c in node.children:
            flatten(c, loops, conds, out)
    elif n == "IfThen":
        flatten(node.then, loops, conds + ((node.condition, True),), out)
    elif n == "IfThenElse":
        flatten(node.then, loops, conds + ((node.condition, True),), out)
        flatten(node.else_, loops, conds + ((node.condition, False),), out)
    elif n == "ForLoop":
        flatten(node.body, loops + ((node.loop_var_name, node.lbound, node.ubound),), conds, out)
    else:
        raise ValueError("unexpected node %s" % n)
    return out


def serialise(node):
    n = type(node).__name__
    if n == "StatementWrapper":
        return ["S", node.statement.id]
    if n == "NullASTNode":
        return ["N"]
    if n == "Block":
        return ["B"] + [serialise(c) for c in node.children]
    if n == "IfThen":
        return ["I", str(node.condition), serialise(node.then)]
    if n == "IfThenElse":
        return ["E", str(node.condition), serialise(node.then), serialise(node.else_)]
    if n == "ForLoop":
        return ["F", node.loop_var_name, str(node.lbound), str(node.ubound), serialise(node.body)]
    raise ValueError(n)


def inorder(node, out):
    """Expected walker callback sequence."""
    n = type(node).__name__
    if n == "StatementWrapper":
        out.append(("inst", node.statement.id))
    elif n == "Block":
        for c in node.children:
            inorder(c, out)
    elif n == "IfThen":
        out.append(("if", str(node.condition)))
        inorder(node.then, out)
        out.append(("endif",))
    elif n == "IfThenElse":
        out.append(("if", str(node.condition)))
        inorder(node.then, out)
        out.append(("else",))
        inorder(node.else_, out)
        out.append(("endif",))
    elif n == "ForLoop":
        out.append(("for", node.loop_var_name, str(node.lbound), str(node.ubound)))
        inorder(node.body, out)
        out.append(("endfor", node.loop_var_name))
    elif n == "NullASTNode":
        out.append(("null",))
    else:
        raise ValueError(n)
    return out


def walker_log(ast):
    from dagrt.codegen.codegen_base import StructuredCodeGenerator
    log = []

    class Rec(StructuredCodeGenerator):
        def emit_if_begin(self, expr): log.append(("if", str(expr)))
        def emit_if_end(self): log.append(("endif",))
        def emit_else_begin(self): log.append(("else",))
        def emit_for_begin(self, v, lo, hi): log.append(("for", v, str(lo), str(hi)))
        def emit_for_end(self, v): log.append(("endfor", v))
        def emit_return(self): log.append(("return",))

        def __getattr__(self, name):
            if name.startswith("emit_inst_"):
                return lambda inst: log.append(("inst", inst.id))
            raise AttributeError(name)
    Rec().lower_ast(ast)
    return log


def judge(ex, spec, stmts, ast):
    """Returns None or a problem string; z3 obligations via ex."""
    flat = flatten(ast)
    want = [s for s in stmts if type(s).__name__ != "Nop"]
    got_ids = [s.id for s, _, _ in flat]
    if sorted(got_ids) != sorted(s.id for s in want):
        return "leaves %s, expected the non-Nop statements %s once each" % (got_ids, sorted(s.id for s in want))
    by_id = {s.id: s for s in stmts}
    pos = {sid: k for k, sid in enumerate(got_ids)}
    flags = {}
    pcs = {}
    for leaf, loops, conds in flat:
        orig = by_id[leaf.id]
        declared = [(i, str(lo), str(hi)) for i, lo, hi in getattr(orig, "loops", [])]
        found = [(i, str(lo), str(hi)) for i, lo, hi in loops] + [(i, str(lo), str(hi)) for i, lo, hi in getattr(leaf, "loops", [])]
        if found != declared:
            return "%s: enclosing loops %s, declared %s" % (leaf.id, found, declared)
        pc = z3.And(*[cond_formula(c, flags) if pol else z3.Not(cond_formula(c, flags)) for c, pol in conds]) if conds else z3.BoolVal(True)
        leaf_cond = getattr(leaf, "condition", True)
        if leaf_cond is not True:
            pc = z3.And(pc, cond_formula(leaf_cond, flags))
        pcs[leaf.id] = pc
        g = cond_formula(orig.condition, flags)
        v, m = ex.prove(pc == g)
        if v == "refuted":
            val = {n: bool(z3.is_true(m.eval(b, model_completion=True))) for n, b in flags.items()}
            return "%s: runs under %s but its guard is %s (differs at %s)" % (leaf.id, z3.simplify(pc), orig.condition, val)
    # order: under every valuation the statements that run are in an order
    # consistent with the (transitive: Nops are carriers) dependency edges; a
    # textual inversion is fine iff the two can never both run
    anc = _closure(stmts)
    for s in want:
        for d in sorted(anc[s.id]):
            if d in pos and pos[d] > pos[s.id]:
                v, m = ex.prove(z3.Not(z3.And(pcs[s.id], pcs[d])))
                if v == "refuted":
                    val = {n: bool(z3.is_true(m.eval(b, model_completion=True))) for n, b in flags.items()}
                    return "%s runs before its dependency %s (both run at %s)" % (s.id, d, val)
    log = walker_log(ast)
    exp = inorder(ast, []) + [("return",)]
    if log != exp:
        return "walker callbacks %s differ from the in-order traversal %s" % (log[:12], exp[:12])
    return None


def _closure(stmts):
    anc = {s.id: set(s.depends_on) for s in stmts}
    ch = True
    while ch:
        ch = False
        for k in anc:
            new = set()
            for d in anc[k]:
                new |= anc.get(d, set())
            if not new <= anc[k]:
                anc[k] |= new
                ch = True
    return anc


def make_phase(spec, order):
    import dagrt.language as L
    n = len(spec["kinds"])
    # statement i carries the id labels[i]: the lowering orders by id, so a dependency may sort after its dependent
    labels = spec.get("labels") or ["s%d" % i for i in range(n)]
    stmts = [build_stmt(i, spec["kinds"][i], spec["guards"][i],
                        [labels[j] for (a, j) in spec["edges"] if a == i], sid=labels[i]) for i in range(n)]
    ph = L.ExecutionPhase(name="p", next_phase="p", statements=[stmts[i] for i in order])
    return stmts, L.DAGCode({"p": ph}, "p")


def harness(spec):
    first = {}

    def h(ex):
        from dagrt.codegen.dag_ast import create_ast_from_phase
        n = len(spec["kinds"])
        if spec.get("order") is not None:
            order = list(spec["order"])   # merge-run chains: one topological order, one stated storage order
        else:
            order, _ = symbolic_sort(list(range(n)), "store")
        stmts, dag = make_phase(spec, order)
        ex.stats.obligations += 1
        try:
            ast = create_ast_from_phase(dag, "p")
        except Exception as e:  # noqa
            ex.stats.refuted += 1
            return {"spec": spec, "order": order, "problem": "create_ast_from_phase raised %s: %s" % (type(e).__name__, e)}
        bad = judge(ex, spec, stmts, ast)
        if bad is None:
            ser = serialise(ast)
            if "ser" not in first:
                first["ser"] = ser
                first["order"] = order
            elif first["ser"] != ser:
                bad = "tree depends on the storage order: order %s gives %s, order %s gives %s" % (first["order"], first["ser"], order, ser)
        if bad is None:
            ex.stats.discharged += 1
            return None
        ex.stats.refuted += 1
        return {"spec": spec, "order": order, "problem": bad, "other_order": first.get("order")}
    return h


def work(item):
    tr = common.FunctionTrace()
    tr.start()
    from vf.symx import Stats
    st = Stats()
    cands, samples = [], []
    n = nontriv = 0
    for spec in item["specs"]:
        ex = Explorer(timeout_ms=5000, max_paths=200, max_decisions=60)
        res = ex.explore(harness(spec))
        st.add(ex.stats)
        n += 1
        if spec["edges"] or any(g != "T" for g in spec["guards"]):
            nontriv += 1
        for trail, r in res:
            if r is not None:
                cands.append(r)
                break
        if len(samples) < 1 and len(spec["kinds"]) >= 3 and spec["edges"]:
            samples.append(spec)
    tr.stop()
    return {"stats": st.as_dict(), "candidates": cands, "evaluations": n, "distinct_nontrivial": nontriv,
            "samples": samples, "functions": sorted(tr.seen)}


def replay(d):
    from dagrt.codegen.dag_ast import create_ast_from_phase
    spec = d["spec"]
    spec["edges"] = [tuple(e) for e in spec["edges"]]
    ex = Explorer()
    orders = [d["order"]]
    if d.get("other_order"):
        orders.append(d["other_order"])
    sers = []
    for order in orders:
        stmts, dag = make_phase(spec, order)
        try:
            ast = create_ast_from_phase(dag, "p")
        except Exception as e:  # noqa
            return {"reproduced": True, "detail": "%s: create_ast_from_phase raised %s: %s" % (spec, type(e).__name__, e)}
        bad = judge(ex, spec, stmts, ast)
        if bad:
            return {"reproduced": True, "detail": "phase %s stored in order %s: %s; tree %s" % (spec, order, bad, serialise(ast))}
        sers.append(serialise(ast))
    if len(sers) == 2 and sers[0] != sers[1]:
        return {"reproduced": True, "detail": "phase %s: storage orders %s give different trees %s" % (spec, orders, sers)}
    return {"reproduced": False, "detail": "lowering is correct on replay"}


def classify(c, r, open_known):
    return None


def all_edges(n):
    pairs = [(i, j) for i in range(n) for j in range(i)]
    for bits in itertools.product([0, 1], repeat=len(pairs)):
        yield [p for p, b in zip(pairs, bits) if b]


def gen_specs(tier, seed):
    specs = []
    kinds_small = ["assign", "loop1", "nop", "yield"]
    guards_small = ["T", "c0", "!c0", "c0&c1"]
    # exhaustive: N = 2 over everything, N = 3 over the reduced alphabets
    def labellings(n):
        return [["s%d" % j for j in perm] for perm in itertools.permutations(range(n))]
    for kinds in itertools.product(KINDS, repeat=2):
        for guards in itertools.product(GUARDS, repeat=2):
            for edges in all_edges(2):
                for labels in (labellings(2) if edges else labellings(2)[:1]):
                    specs.append({"kinds": list(kinds), "guards": list(guards), "edges": edges, "labels": labels})
    step = 1 if tier == "thorough" else 3
    k = 0
    lab3 = labellings(3)
    for kinds in itertools.product(kinds_small, repeat=3):
        for guards in itertools.product(guards_small, repeat=3):
            for edges in all_edges(3):
                k += 1
                if k % step == 0:
                    # quick: one of the six labellings per spec (rotating); thorough: all six when there are edges
                    for labels in (lab3 if (tier == "thorough" and edges) else [lab3[(k // step) % 6]]):
                        specs.append({"kinds": list(kinds), "guards": list(guards), "edges": edges, "labels": labels})
    # merge-run chains (after seeded change C05_r7): a chain s0 -> s1 -> ... has ONE topological order, so the guard word is
    # exactly the sequence of adjacent conditionals the lowering's simplifier merges: every word over the alphabet,
    # i.e. every pattern of merge runs (two runs separated by something, negated next to plain, ...)
    chain_sets = [(5, ["T", "c0", "!c0", "c1", "!c1"]), (6, ["T", "c0", "!c0", "c1"])]
    if tier == "thorough":
        chain_sets += [(6, ["T", "c0", "!c0", "c1", "!c1"]), (7, ["T", "c0", "!c0", "c1"])]
    seen_words = set()
    for n, alpha in chain_sets:
        for k2, word in enumerate(itertools.product(alpha, repeat=n)):
            if (n, word) in seen_words:
                continue
            seen_words.add((n, word))
            kinds = ["assign"] * n
            if k2 % 7 == 3:
                kinds[k2 % n] = "yield"
            specs.append({"kinds": kinds, "guards": list(word), "edges": [(i, i - 1) for i in range(1, n)],
                          "order": list(range(n)) if k2 % 2 == 0 else list(range(n - 1, -1, -1))})
    n_exh = len(specs)
    rng = random.Random(seed)
    nrand = 1500 if tier == "quick" else 15000
    for _ in range(nrand):
        n = rng.choice([4, 4, 5])
        edges = [(i, j) for i in range(n) for j in range(i) if rng.random() < 0.35]
        labels = ["s%d" % j for j in range(n)]
        rng.shuffle(labels)
        specs.append({"kinds": [rng.choice(KINDS) for _ in range(n)], "guards": [rng.choice(GUARDS) for _ in range(n)], "edges": edges, "labels": labels})
    return specs, n_exh, nrand


def selftests():
    import dagrt.codegen.dag_ast as D
    res = {}
    spec = {"kinds": ["assign", "yield", "loop1"], "guards": ["c0", "!c0", "c0&c1"], "edges": [(1, 0), (2, 1)]}
    ex = Explorer()
    r = ex.explore(harness(spec))
    res["baseline_ok_all_orders"] = len(r) == 6 and all(x is None for _, x in r)
    orig = D.conditional_to_ast

    def bad(statement):
        if statement.condition is not True:
            return D.IfThenElse(statement.condition, D.NullASTNode(), D.statement_to_ast(statement.copy(condition=True)))
        return D.statement_to_ast(statement)
    D.conditional_to_ast = bad
    try:
        ex = Explorer()
        r = ex.explore(harness(spec))
        res["fault_then_else_swapped_detected"] = any(x is not None for _, x in r)
    finally:
        D.conditional_to_ast = orig
    orig2 = D.loop_to_ast_node

    def bad2(statement):
        if isinstance(statement, D.Assign) and statement.loops:
            v, lo, hi = statement.loops[-1]
            return D.ForLoop(loop_var_name=v, lbound=lo, ubound=hi, body=bad2(statement.copy(loops=statement.loops[:-1])))
        return D.conditional_to_ast(statement)
    D.loop_to_ast_node = bad2
    try:
        ex = Explorer()
        r = ex.explore(harness({"kinds": ["loop2"], "guards": ["T"], "edges": []}))
        res["fault_loop_order_reversed_detected"] = any(x is not None for _, x in r)
    finally:
        D.loop_to_ast_node = orig2
    return res


def main(tier, seed):
    run = Run(PID, tier, seed, "other")
    specs, n_exh, nrand = gen_specs(tier, seed)
    for part in pmap("vf.checks.c05", "work", [{"specs": p} for p in chunks(specs, common.NPROC * 4)]):
        run.absorb(part)
    run.bounds = {"exhaustive_specs": n_exh, "random_specs": nrand, "statements": "<= 5 (chains: <= 6 quick, <= 7 thorough)", "flags": 3,
                  "kinds": KINDS, "guards": GUARDS, "storage_orders": "all permutations (symbolic ranks)"}
    run.selftests = selftests()
    if not all(run.selftests.values()):
        run.harness_errors.append("self-test failed: %r" % run.selftests)
    run.assumptions = [
        "edges i -> j only for j < i; statement ids are a permutation of s0..s(N-1) (the lowering orders by id: a dependency may sort before or after its dependent)",
        "guards are flags, negated flags (also doubly and triply negated) and conjunctions thereof",
        "flags are not assigned by the phase's own statements (flag assignments are ordinary statements for the lowering)",
        "the tree is compared across storage orders by an independent serialiser (dagrt's own ASTStringifier cannot print an IfThenElse node)",
    ]
    return run.finish(
        rule="hand-built phases: all kinds^2 x guards^2 x edge sets for N=2; %s of the 4 kinds^3 x 4 guards^3 x 8 edge sets for N=3; %d seeded random phases with "
             "N=4..5; each under every storage order; every guard word over {T, c0, !c0, c1[, !c1]} on dependency chains of 5-6 (thorough: 7) statements (all merge-run patterns of the simplifier); non-trivial = has an edge or a guard" % ("all" if tier == "thorough" else "every 3rd", nrand),
        explanation="real create_ast_from_phase + real lower_node per (phase, storage order) path; one z3 validity query per leaf (path condition <=> guard for all "
                    "flag valuations); structural clauses concrete",
        classify=classify)
