"""C11 -- a failing user function leaves the stepper consistent and resumable.

Fault enumeration with a symbolic crash point: every user-function call site
has its own function; all stubs share one call counter and raise a marker
exception when the counter equals k, a symbolic integer -- `count == k` forks,
so every call index reachable on a path is a crash point.  Run on the REAL
interpreter and the REAL generated class.  Oracle per failing path:
  1. the same exception object escapes run();
  2. only persistent names remain in the store;
  3. each persistent v equals its pre-step value or a value RefProgram assigns
     to v in that step (z3 validity);
  4. if every writer of v depends (builder closure) on the failed call's
     statement, v is unchanged (z3 validity);
  5. continuing for m steps yields the same events as a fresh stepper put in
     that state and phase (z3 validity per field)."""
import copy
import json
import random

import z3

from vf import backends, common, exprdsl, pg, refprog, stmtdsl, symx
from vf.common import Run, pmap, chunks
from vf.symx import Explorer, SymNum

PID = "C11"
MAXK = 7


class Boom(Exception):
    pass


# the injected exception is of one of these classes (chosen per program by its name): a stepper must hand on whatever the
# user function raised, also when it is of a class the stepper itself catches somewhere (KeyError, ValueError, ...)
class BoomKey(Boom, KeyError):
    pass


class BoomValue(Boom, ValueError):
    pass


class BoomAttr(Boom, AttributeError):
    pass


class BoomType(Boom, TypeError):
    pass


class BoomRuntime(Boom, RuntimeError):
    pass


BOOMS = [Boom, BoomKey, BoomValue, BoomAttr, BoomType, BoomRuntime]


def boom_for(prog):
    import zlib
    return BOOMS[zlib.crc32((prog.get("name") or "").encode()) % len(BOOMS)]


def uniquify_calls(prog):
    """Give every call site its own function name.  Returns (prog', sites)
    where sites maps function name -> nres."""
    prog = copy.deepcopy(prog)
    sites = {}
    ctr = [0]

    def new_name(nres):
        n = "<func>s%d" % ctr[0]
        ctr[0] += 1
        sites[n] = nres
        return n

    def rex(d):
        k = d[0]
        if k in ("v", "c"):
            return d
        if k == "cmp":
            return ["cmp", d[1], rex(d[2]), rex(d[3])]
        if k == "call":
            if d[1].startswith("<builtin>"):
                return ["call", d[1], [rex(x) for x in d[2]], {n: rex(v) for n, v in (d[3] if len(d) > 3 else {}).items()}]
            return ["call", new_name(1), [rex(x) for x in d[2]], {n: rex(v) for n, v in (d[3] if len(d) > 3 else {}).items()}]
        return [k] + [rex(x) for x in d[1:]]

    def rops(ops):
        out = []
        for op in ops:
            k = op[0]
            if k == "assign":
                lhs = op[1] if isinstance(op[1], str) else ["sub", op[1][1], rex(op[1][2])]
                out.append(["assign", lhs, rex(op[2]), [[i, rex(lo), rex(hi)] for i, lo, hi in op[3]]])
            elif k == "assign_call":
                out.append(["assign_call", op[1], new_name(max(1, len(op[1])) if len(op[1]) != 1 else 1),
                            [rex(x) for x in op[3]], {n: rex(v) for n, v in op[4].items()}])
            elif k == "if":
                cf = op[1]
                cf = ["expr", rex(cf[1])] if cf[0] == "expr" else ["cmp3", rex(cf[1]), cf[2], rex(cf[3]), [False, False]]
                out.append(["if", cf, rops(op[2]), rops(op[3]) if op[3] is not None else None])
            elif k == "yield":
                out.append(["yield", rex(op[1]), op[2], rex(op[3]), op[4]])
            else:
                out.append(op)
        return out
    for ph in prog["phases"]:
        ph["ops"] = rops(ph["ops"])
    return prog, sites


def make_funcs(sites, counter, k, boom, failed):
    funcs = {}
    for name, nres in sites.items():
        base = stmtdsl.uf_function(name, nres)

        def f(*a, _base=base, _name=name, **kw):
            i = counter[0]
            counter[0] += 1
            if k is not None and bool(k == i):
                failed.append(_name)
                raise boom
            return _base(*a, **kw)
        funcs[name] = f
    return funcs


def pure_funcs(sites):
    return {name: stmtdsl.uf_function(name, nres) for name, nres in sites.items()}


def snapshot(kind, m, names):
    if kind == "interp":
        s, left = backends.persistent_interp(m)
        return dict(s), left
    s, extra = backends.persistent_generated(m, names)
    return dict(s), extra


def put_state(kind, m, state, phase):
    if kind == "interp":
        m.context.clear()
        m.context.update(state)
    else:
        for n, v in state.items():
            if n == "<t>":
                m.t = v
            elif n == "<dt>":
                m.dt = v
            else:
                setattr(m, "global_" + backends.sanitize(n), v)
    m.next_phase = phase


def stmt_of_site(builders, site):
    """(phase, statement id) of the statement containing the call site."""
    for pname, cb in builders.items():
        for s in cb.statements:
            if site in str(s):
                return pname, s
    return None, None


def writers_all_depend_on(builders, pname, failed_stmt, var):
    from vf.checks.c02 import closure
    cb = builders[pname]
    anc = closure(cb.statements)
    writers = [s for s in cb.statements if var in s.get_written_variables()]
    if not writers:
        return True
    return all(failed_stmt.id in anc[w.id] or w.id == failed_stmt.id for w in writers)


def run_backend(ex, kind, prog, dag, cls, builders, sites, K, m_after, k, concrete=None, conc_k=None, prove=None):
    """Returns None (no failure on this path / all fine) or a problem string."""
    names = backends.program_persistent_names(prog)
    counter = [0]
    boom = boom_for(prog)("injected")
    failed = []
    kk = k if concrete is None else conc_k
    funcs = make_funcs(sites, counter, kk, boom, failed) if concrete is None else \
        make_funcs_concrete(sites, counter, conc_k, boom, failed, concrete.get("ufs") or {})
    if kind == "interp":
        m = backends.make_interpreter(dag, funcs, builtin_stubs=concrete is None)
    else:
        m = backends.make_generated(cls, funcs, builtin_stubs=concrete is None)
    t0, dt0, ctx = backends.initial_values(prog, concrete=concrete["init"] if concrete else None)
    m.set_up(t_start=t0, dt_start=dt0, context=ctx)
    pre, _ = snapshot(kind, m, names)
    pre_phase = m.next_phase
    caught = None
    nev = 0
    try:
        for ev in m.run(max_steps=K):
            nev += 1
            if type(ev).__name__ in ("StepCompleted", "StepFailed"):
                pre, _ = snapshot(kind, m, names)
                pre_phase = m.next_phase
            if nev > 24:
                break
    except Boom as e:
        caught = e
    except (symx.Abort, symx.Unmodelled, symx.BudgetExceeded):
        raise
    except Exception as e:  # noqa
        if failed:
            # the fault WAS injected, and something else came out of run()
            return "%s: the user function raised %s, the caller of the stepper received %s: %s" % (
                kind, type(boom).__name__, type(e).__name__, str(e)[:80])
        if isinstance(e, (ZeroDivisionError, OverflowError, IndexError)):
            raise symx.Abort()
        # a program-level error (raise_) or another failure before the fault: not this property's subject
        return None
    if caught is None:
        if failed:
            # the fault WAS injected and run() went on as if nothing had happened
            return "%s: the user function %s raised %s, but no exception reached the caller of the stepper" % (
                kind, failed[0], type(boom).__name__)
        return None
    if caught is not boom:
        return "%s: a different exception object escaped run()" % kind
    post, left = snapshot(kind, m, names)
    if left:
        return "%s: after the exception the store still holds %s" % (kind, left)
    post_phase = m.next_phase
    # --- clause 3/4: reference step from the pre-state
    site = failed[0]
    ref_funcs = pure_funcs(sites) if concrete is None else concrete_pure(sites, concrete.get("ufs") or {})
    if concrete is None:
        import dagrt.builtins_python as B
        for n in B.builtins:
            ref_funcs[n] = backends.sym_builtin_stub(n)
    r = refprog.RefProgram(prog, ref_funcs)
    r.store = dict(pre)
    r.next_phase = pre_phase
    r.assign_log = []
    try:
        r.run_single_step([])
    except refprog.RefUndefined:
        raise symx.Abort()
    except (ZeroDivisionError, OverflowError, IndexError):
        raise symx.Abort()
    except Exception:  # noqa
        pass
    pname, fstmt = stmt_of_site(builders, site)
    for v in sorted(post):
        if v not in pre:
            allowed = []
        else:
            allowed = [pre[v]]
        allowed += [val for (n, val) in r.assign_log if n == v]
        cond = symx.z3_or([symx.sym_eq(post[v], a) for a in allowed])
        if prove(cond) == "refuted":
            return ("%s: after the failure of %s persistent %s = %r is neither its pre-step value %r nor one of the %d values the "
                    "program assigns to it in that step" % (kind, site, v, post[v], pre.get(v), len(allowed) - 1))
        # (inlined-guard variants evaluate the call once per guarded statement: a write guarded by an EARLIER evaluation does
        #  not depend on the failing one, and the builder's statements no longer describe the dependencies -- clause 4 skipped)
        if fstmt is not None and not prog.get("inline_cond") and pname == pre_phase and v in pre and writers_all_depend_on(builders, pname, fstmt, v):
            if prove(symx.sym_eq(post[v], pre[v])) == "refuted":
                return "%s: %s changed although every write of it depends on the failed call %s" % (kind, v, site)
    # --- clause 5: resumability
    cont = collect(m.run(max_steps=m_after))
    fresh_funcs = {n: f for n, f in ref_funcs.items() if not n.startswith("<builtin>")}
    if kind == "interp":
        fresh = backends.make_interpreter(dag, fresh_funcs, builtin_stubs=concrete is None)
    else:
        fresh = backends.make_generated(cls, fresh_funcs, builtin_stubs=concrete is None)
        fresh.set_up(t_start=0, dt_start=0, context={})
        for a in [a for a in vars(fresh) if a.startswith("global_")]:
            delattr(fresh, a)
    put_state(kind, fresh, post, post_phase)
    twin = collect(fresh.run(max_steps=m_after))
    if len(cont) != len(twin):
        return "%s: resumed stepper yields %d events, fresh stepper in the same state %d" % (kind, len(cont), len(twin))
    for a, b in zip(cont, twin):
        if a[0] == "exc" or b[0] == "exc":
            if a != b:
                return "%s: resumed stepper ends with %s, fresh stepper with %s" % (kind, a, b)
            continue
        if prove(symx.sym_eq(a, b)) == "refuted":
            return "%s: resumed stepper event %r differs from fresh stepper event %r" % (kind, a, b)
    return None


def collect(gen):
    out = []
    try:
        for ev in gen:
            out.append(backends.norm_event(ev))
            if len(out) > 24:
                break
    except (symx.Abort, symx.Unmodelled, symx.BudgetExceeded):
        raise
    except (ZeroDivisionError, OverflowError, IndexError):
        raise symx.Abort()
    except Exception as e:  # noqa
        out.append(("exc", backends.error_kind(e)))
    return out


def make_funcs_concrete(sites, counter, k, boom, failed, ufs):
    funcs = {}
    for name, nres in sites.items():
        base = backends.concrete_function(name, ufs, nres)

        def f(*a, _base=base, _name=name, **kw):
            i = counter[0]
            counter[0] += 1
            if i == k:
                failed.append(_name)
                raise boom
            return _base(*a, **kw)
        funcs[name] = f
    return funcs


def concrete_pure(sites, ufs):
    return {name: backends.concrete_function(name, ufs, nres) for name, nres in sites.items()}


def harness(prog, dag, cls, builders, sites, K, m_after):
    def h(ex):
        backends.assume_ranges(ex, prog)
        k = SymNum(z3.Int("fault_k"))
        ex.assume(z3.And(k.t >= 0, k.t <= MAXK))
        state = {"model": None}

        def prove(cond):
            v, m = ex.prove(cond)
            if v == "refuted":
                state["model"] = m
            return v
        for kind in ("interp", "gen"):
            bad = run_backend(ex, kind, prog, dag, cls, builders, sites, K, m_after, k, prove=prove)
            if bad is not None:
                m = state["model"] or ex.path_model()
                from vf.checks import c01
                return {"prog": prog, "K": K, "m_after": m_after, "problem": bad,
                        "k": symx.model_value(m, k.t) if m is not None else None,
                        "init": c01.concrete_init(prog, m) if m is not None else None,
                        "ufs": backends.uf_tables_from_model(m) if m is not None else {}}
        return None
    return h


def inline_conditions(dag):
    """The written program with every `<cond>` flag that is computed by a user-function call and used only as a (negated)
    statement guard replaced by its defining expression: the call then sits IN the guards (hand-built statements may do
    that; the builder never does).  Only where this keeps the meaning: no statement other than its own dependencies writes what
    the expression reads.  Returns (dag', number of flags inlined)."""
    import dagrt.language as L
    from pymbolic.primitives import Variable, LogicalNot
    nin = 0
    phases = {}
    for pname, ph in dag.phases.items():
        stmts = list(ph.statements)
        for A in list(stmts):
            if not (isinstance(A, L.Assign) and isinstance(A.assignee, str) and A.assignee.startswith("<cond>")
                    and A.condition is True and not A.loops and "<func>" in str(A.rhs)):
                continue
            reads = frozenset(A.get_read_variables())
            from vf.checks.c02 import closure
            before = closure(stmts)[A.id]   # writers the flag's statement depends on ran before it: harmless
            if any(S is not A and S.id not in before and (reads & frozenset(S.get_written_variables())) for S in stmts):
                continue
            cv = Variable(A.assignee)
            users = [S for S in stmts if S is not A and A.assignee in S.get_read_variables()]
            if not users or any(not (S.condition == cv or S.condition == LogicalNot(cv)) for S in users):
                continue
            if any(A.assignee in (frozenset(S.copy(condition=True).get_read_variables())) for S in users):
                continue
            out = []
            for S in stmts:
                if S is A:
                    continue
                deps = set(S.depends_on)
                if A.id in deps:
                    deps = (deps - {A.id}) | set(A.depends_on)
                cond = S.condition
                if any(S is U for U in users):
                    cond = A.rhs if S.condition == cv else LogicalNot(A.rhs)
                out.append(S.copy(condition=cond, depends_on=frozenset(deps)))
            stmts = out
            nin += 1
        phases[pname] = L.ExecutionPhase(name=ph.name, next_phase=ph.next_phase, statements=stmts)
    if not nin:
        return dag, 0
    return L.DAGCode(phases, dag.initial_phase), nin


def build(prog):
    from vf.checks.c02 import build_instrumented
    dag, builders, x = build_instrumented(prog)
    if prog.get("inline_cond"):
        dag, n = inline_conditions(dag)
        if not n:
            raise ValueError("nothing to inline")
    return dag, builders, x


def check_program(prog0, K, m_after, max_paths):
    from vf.symx import Stats
    st = Stats()
    prog, sites = uniquify_calls(prog0)
    if not sites:
        return st, None, {"paths": 0, "sites": 0}
    try:
        dag, builders, _ = build(prog)
        cls = backends.generate_class(dag)
    except Exception:  # noqa
        return st, None, {"paths": 0, "sites": 0}
    ex = Explorer(timeout_ms=1500, max_paths=max_paths, max_decisions=300, wall_s=25)
    res = ex.explore(harness(prog, dag, cls, builders, sites, K, m_after))
    st.add(ex.stats)
    cand = None
    for trail, r in res:
        if r is not None:
            cand = r
            break
    return st, cand, {"paths": ex.stats.paths, "sites": len(sites)}


def work(item):
    tr = common.FunctionTrace()
    tr.start()
    from vf.symx import Stats
    st = Stats()
    cands, samples = [], []
    n = nontriv = 0
    for prog in item["progs"]:
        s, cand, info = check_program(prog, item["K"], item["m_after"], item["max_paths"])
        st.add(s)
        if info["sites"]:
            n += 1
            if info["paths"] >= 2:
                nontriv += 1
        if cand is not None:
            cands.append(cand)
        if len(samples) < 1 and info["paths"] >= 4:
            samples.append({"program": prog.get("name"), "call_sites": info["sites"], "paths": info["paths"]})
    tr.stop()
    return {"stats": st.as_dict(), "candidates": cands, "evaluations": max(n, 0), "programs": n,
            "distinct_nontrivial": nontriv, "samples": samples, "functions": sorted(tr.seen)}


def replay(d):
    prog, sites = d["prog"], None
    # the stored program is already uniquified: recover the sites
    sites = {}
    for ph in prog["phases"]:
        for op in pg.walk_ops(ph["ops"]):
            if op[0] == "assign_call":
                sites[op[2]] = len(op[1]) if len(op[1]) != 1 else 1
            for e in pg.op_exprs(op):
                for _, s in exprdsl.subterms(e):
                    if s[0] == "call" and not s[1].startswith("<builtin>"):
                        sites.setdefault(s[1], 1)
    dag, builders, _ = build(prog)
    cls = backends.generate_class(dag)
    ks = [d["k"]] if d.get("k") is not None else []
    ks += [k for k in range(MAXK + 1) if k not in ks]
    inits = [d["init"]] if d.get("init") else []
    rng = random.Random(3)
    roles = pg.var_roles(prog)
    for _ in range(6):
        ctx = {n[7:]: rng.randint(-4, 6) for n, r in roles.items() if n.startswith("<state>")}
        inits.append({"t0": rng.randint(0, 2), "dt0": rng.randint(1, 2), "t_end": 3, "context": ctx})

    def prove(cond):
        return "valid" if cond is True or (not isinstance(cond, bool) and z3.is_true(z3.simplify(cond))) else "refuted"
    for init in inits:
        for k in ks:
            for kind in ("interp", "gen"):
                try:
                    bad = run_backend(None, kind, prog, dag, cls, builders, sites, d["K"], d["m_after"], None,
                                      concrete={"init": init, "ufs": d.get("ufs") or {}}, conc_k=k, prove=prove)
                except symx.Abort:
                    continue
                if bad is not None:
                    return {"reproduced": True, "detail": "program %s, function call #%d raises, init %s: %s" % (prog.get("name"), k, init, bad)}
    return {"reproduced": False, "detail": "no violation on replay"}


def classify(c, r, open_known):
    return None


C11_CORPUS = [
    pg.P1([["assign_call", ["a"], "<func>f", [pg.Y, pg.C(1)], {}],
           ["assign", "<state>z", pg.ADD(pg.V("a"), pg.C(1)), []],
           ["if", ["expr", pg.GT(pg.V("a"), pg.C(0))], [["assign_call", ["b"], "<func>f", [pg.V("a"), pg.C(2)], {}],
                                                       ["assign", "<state>y", pg.V("b"), []]], None],
           pg.yld(pg.Y), pg.STEP]),
    pg.P1([["assign", "<state>y", pg.ADD(pg.Y, pg.C(1)), []],
           ["assign", "a", ["call", "<func>f", [pg.Y], {}], []],
           ["assign", "<state>y", pg.ADD(pg.Y, pg.C(10)), []],
           ["assign", "<state>z", ["call", "<func>g", [pg.V("a")], {"k": pg.Z}], []],
           pg.yld(pg.Z), pg.STEP]),
    pg.P1([["if", ["expr", pg.GT(["call", "<func>f", [pg.Y], {}], pg.C(0))], [["assign", "<state>y", pg.C(0), []]],
            [["assign", "<state>z", ["call", "<func>g", [pg.Z], {}], []]]],
           pg.yld(pg.ADD(pg.Y, pg.Z)), pg.STEP]),
    pg.P1([["assign", "acc", pg.C(0), []],
           ["assign", "acc", pg.ADD(pg.V("acc"), ["call", "<func>f", [pg.V("i"), pg.Y], {}]), [["i", pg.C(0), pg.C(3)]]],
           ["assign", "<state>y", pg.V("acc"), []], pg.yld(pg.Y), pg.STEP]),
    pg.P1([["assign_call", ["a", "b"], "<func>h2", [pg.Y], {"k": pg.Z}],
           ["assign", "<state>y", pg.V("a"), []], ["assign", "<state>z", pg.V("b"), []],
           ["assign_call", ["c"], "<func>f", [pg.V("b")], {}], ["assign", "<p>k", pg.V("c"), []],
           pg.yld(pg.Y), pg.STEP]),
    {"phases": [
        {"name": "a", "next": "b", "ops": [["assign", "<state>y", ["call", "<func>f", [pg.Y], {}], []], pg.yld(pg.Y, tid="a")]},
        {"name": "b", "next": "a", "ops": [["assign", "<state>z", pg.ADD(pg.Z, pg.C(1)), []],
                                           ["if", ["expr", pg.GT(pg.Z, pg.C(1))], [["assign", "<state>y", ["call", "<func>g", [pg.Z], {}], []], ["switch", "b"]], None],
                                           ["assign", "<state>z", ["call", "<func>f", [pg.Z], {}], []], pg.yld(pg.Z, comp="z"), pg.STEP]},
    ], "initial": "a"},
    pg.P1([["assign", "<state>y", pg.ADD(pg.Y, pg.C(1)), []],
           ["if", ["expr", pg.GT(pg.Y, pg.C(2))], [["assign", "<dt>", ["call", "<func>f", [pg.DT], {}], []], ["fail"]], None],
           ["assign", "<state>z", ["call", "<func>g", [pg.Y], {}], []], pg.yld(pg.Z), pg.STEP]),
    # guards computed by a call on a variable nothing overwrites afterwards (inlinable, see inline_conditions)
    pg.P1([["assign", "<state>z", pg.ADD(pg.Z, pg.C(1)), []],
           ["if", ["expr", pg.GT(["call", "<func>f", [pg.Z], {}], pg.C(0))], [["assign", "<state>y", pg.ADD(pg.Y, pg.Y), []]], None],
           pg.yld(pg.Y), pg.STEP]),
    pg.P1([["assign", "a", pg.ADD(pg.Z, pg.C(1)), []],
           ["if", ["expr", pg.GT(["call", "<func>f", [pg.V("a")], {}], pg.C(1))],
            [["assign", "<state>y", pg.ADD(pg.Y, pg.C(3)), []], pg.yld(pg.Y)],
            [["assign", "<state>y", ["call", "<func>g", [pg.Y], {}], []]]],
           pg.STEP]),
]


def selftests():
    import dagrt.exec_numpy as X
    res = {}
    prog = dict(C11_CORPUS[0])
    prog["name"] = "c11_0"
    s, cand, info = check_program(prog, 2, 1, 200)
    res["baseline_ok_and_reaches_failures"] = cand is None and info["paths"] >= 4
    orig = X.NumpyInterpreter.run_single_step

    def bad_step(self):
        self.exec_controller.reset()
        cur_state = self.code.phases[self.next_phase]
        self.next_phase = cur_state.next_phase
        self.exec_controller.update_plan(cur_state, cur_state.depends_on)
        yield from self.exec_controller(cur_state, self)
        for name in list(self.context.keys()):
            if not name.startswith("<state>") and not name.startswith("<p>") and name not in ["<t>", "<dt>"]:
                del self.context[name]
    X.NumpyInterpreter.run_single_step = bad_step
    try:
        s, cand, info = check_program(prog, 2, 1, 200)
        res["fault_no_finally_cleanup_detected"] = cand is not None
    finally:
        X.NumpyInterpreter.run_single_step = orig
    return res


def main(tier, seed):
    run = Run(PID, tier, seed, "fault_enumeration")
    progs = []
    for i, p in enumerate(C11_CORPUS):
        p = dict(p)
        p["name"] = "c11_%d" % i
        progs.append(p)
    for p in pg.corpus():
        if pg.functions_used(p) and all(not f.startswith("<builtin>") for f, _ in pg.functions_used(p)):
            progs.append(p)
    ncur = len(progs)
    rng = random.Random(seed)
    nrand = 150 if tier == "quick" else 600
    g = pg.ProgGen(rng, max_ops=8, arrays=False, loops=False)
    tries = 0
    while len(progs) < ncur + nrand and tries < nrand * 10:
        tries += 1
        p = g.program(tries)
        if pg.functions_used(p):
            progs.append(p)
    # after seeded change C11_r7: the same programs with the call-computed `<cond>` flags inlined into the guards
    # (kept only where inline_conditions finds something it may inline)
    ninl = 0
    for p in list(progs):
        if any(op[0] == "if" and "<func>" in json.dumps(op[1]) for ph in p["phases"] for op in pg.walk_ops(ph["ops"])):
            q = copy.deepcopy(p)
            q["inline_cond"] = True
            q["name"] = (p.get("name") or "prog") + "_inl"
            try:
                build(uniquify_calls(q)[0])
            except Exception:  # noqa
                continue
            progs.append(q)
            ninl += 1
    K, m_after, max_paths = (2, 1, 150) if tier == "quick" else (3, 2, 500)
    items = [{"progs": p, "K": K, "m_after": m_after, "max_paths": max_paths} for p in chunks(progs, common.NPROC * 4)]
    for part in pmap("vf.checks.c11", "work", items):
        run.absorb(part)
    run.bounds = {"steps_before_and_including_failure": K, "steps_after": m_after, "fault_call_index_k": "0..%d (symbolic)" % MAXK,
                  "curated_programs": ncur, "random_programs": len(progs) - ncur - ninl, "inlined_guard_variants": ninl, "max_paths_per_program": max_paths}
    run.selftests = selftests()
    if not all(run.selftests.values()):
        run.harness_errors.append("self-test failed: %r" % run.selftests)
    run.assumptions = [
        "every call site gets its own function name (so the failed call identifies its statement); user functions are otherwise pure uninterpreted functions",
        "inlined-guard variants: a call-computed flag is replaced by its defining expression in the guards only if no statement other than the flag's own dependencies writes what the expression reads",
        "programs without arrays (element-wise 'old value or assigned value' is not modelled); scalar loops with calls are included",
        "'that phase' for resumption is the stepper's next_phase attribute after the exception (the default successor of the failed phase)",
        "clause 3 uses the values RefProgram assigns in a non-failing run of the step from the pre-step state (a superset of what a failing run can assign)",
    ]
    return run.finish(
        rule="programs with >= 1 user-function call site: %d curated + %d seeded random; crash point = symbolic global call index k in 0..%d, "
             "explored by forking on count == k; non-trivial = at least 2 paths" % (ncur, len(progs) - ncur, MAXK),
        explanation="real interpreter and real generated class under a symbolic crash point; per failing path z3 decides clauses 3-5; candidates replayed concretely",
        classify=classify)
