"""C13 -- distinct IR names map to distinct, legal, stable target identifiers.

Part A (solver, all strings): dagrt.utils.is_state_variable and the two name
managers' __getitem__ dispatchers run natively on a z3 String proxy; every
`in (...)`/startswith forks; on every path z3 decides, for ALL strings, that the
outcome equals the documented classification (name in {<t>,<dt>} or prefixed by
<state>, <p>, <ret_time_id>, <ret_time>, <ret_state>) and that exactly the
persistent branch reaches name_global.

Part B (bounded enumeration, labelled exploration): everything after the
classification hashes the name (dict/set lookups, regular expressions in
pytools), which forces concrete strings: sets of names tag+body over an
adversarial alphabet, all lookup orders, repeated lookups, through the REAL
PythonNameManager and FortranNameManager: legal identifiers of the target,
pairwise distinct under the target's comparison (case-insensitive for
Fortran), distinct from the identifiers the generator reserves, stable, right
storage class."""
import itertools
import keyword
import random
import re

import z3

from vf import common, symx
from vf.common import Run, pmap, chunks
from vf.symx import Explorer, SymBool

PID = "C13"
PERSISTENT_PREFIXES = ["<state>", "<p>", "<ret_time_id>", "<ret_time>", "<ret_state>"]


class SymStr:
    """z3 String proxy: only ==, in (tuple), startswith."""
    __hash__ = None

    def __init__(self, t):
        self.t = t

    def __eq__(self, o):
        if isinstance(o, str):
            return SymBool(self.t == z3.StringVal(o))
        raise symx.Unmodelled("SymStr == %r" % (o,))

    def __ne__(self, o):
        if isinstance(o, str):
            return SymBool(self.t != z3.StringVal(o))
        raise symx.Unmodelled("SymStr != %r" % (o,))

    def startswith(self, p):
        if isinstance(p, tuple):
            return SymBool(z3.Or(*[z3.PrefixOf(z3.StringVal(x), self.t) for x in p]))
        return SymBool(z3.PrefixOf(z3.StringVal(p), self.t))

    def __getattr__(self, n):
        raise symx.Unmodelled("SymStr.%s" % n)


def spec_persistent(t):
    return z3.Or(t == z3.StringVal("<t>"), t == z3.StringVal("<dt>"),
                 *[z3.PrefixOf(z3.StringVal(p), t) for p in PERSISTENT_PREFIXES])


def harness_classify(which):
    def h(ex):
        try:
            return h2(ex)
        except TypeError as e:
            if "unhashable" in str(e):
                # the code under test hashes the name before classifying it: it cannot be
                # executed on a symbolic string; counted undecided, part B has to decide
                ex.stats.undecided += 1
                return None
            raise

    def h2(ex):
        name = SymStr(z3.String("name"))
        ex.stats.obligations += 0
        if which == "is_state_variable":
            from dagrt.utils import is_state_variable
            out = bool(is_state_variable(name))
        else:
            calls = []
            if which == "python":
                import dagrt.codegen.python as P

                class NM(P.PythonNameManager):
                    def name_global(self, n):
                        calls.append("global")
                        return "G"

                    def name_local(self, n):
                        calls.append("local")
                        return "L"
                r = NM()[name]
            else:
                import dagrt.codegen.fortran as F

                class NM(F.FortranNameManager):
                    def name_global(self, n):
                        calls.append("global")
                        return "G"

                    def name_local(self, n, prefix=None):
                        calls.append("local")
                        return "L"
                r = NM()[name]
                if calls == ["global"] and r != "dagrt_state%G":
                    return "persistent name is not addressed through dagrt_state%%: %r" % (r,)
            if calls not in (["global"], ["local"]):
                return "dispatcher called %s" % calls
            out = calls == ["global"]
        v, m = ex.prove(spec_persistent(name.t) == z3.BoolVal(out))
        if v == "refuted":
            return "classified as %s: %r" % ("persistent" if out else "per-step", m.eval(name.t, model_completion=True).as_string())
        return None
    return h


# ---------------------------------------------------------------------------
# part B

FORTRAN_ID = re.compile(r"^[A-Za-z][A-Za-z0-9_]{0,62}$")


def reserved_fortran():
    """Identifiers the Fortran generator uses for itself, harvested from a
    generated module (everything starting with dagrt_ / drtf_ plus Fortran
    keywords it emits)."""
    import contextlib
    import io
    import dagrt.language as L
    import dagrt.codegen.fortran as F
    from pymbolic import var
    cb = L.CodeBuilder("main")
    cb("<state>y", var("<state>y") + var("<dt>"))
    cb.yield_state(var("<state>y"), "y", var("<t>"), "final")
    dag = L.DAGCode.from_phases_list([cb.as_execution_phase("main")], "main")
    with contextlib.redirect_stdout(io.StringIO()):
        txt = F.CodeGenerator("m", user_type_map={"y": F.ArrayType((2,), F.BuiltinType("real*8"))})(dag)
    ids = set(re.findall(r"[A-Za-z_][A-Za-z0-9_]*", txt))
    res = {i.lower() for i in ids if i.lower().startswith(("dagrt_", "drtf_"))}
    res -= {"dagrt_state_y", "dagrt_t", "dagrt_dt"}
    return res


def names_family(tier):
    tags = ["", "<state>", "<p>", "<func>", "<cond>", "lploc_", "<ret_state>"]
    alpha = ["y", "Y", "_", "^", "*", "0", "<"]
    maxbody = 2 if tier == "quick" else 3
    bodies = [""]
    for n in range(1, maxbody + 1):
        bodies += ["".join(t) for t in itertools.product(alpha, repeat=n)]
    names = []
    for t in tags:
        for b in bodies:
            n = t + b
            if n and n not in names:
                names.append(n)
    names += ["<state>" + "a" * 70, "x" * 70, "<p>" + "B" * 64, "<t>", "<dt>", "<state>y_0", "<state>y__0", "y_0", "Y_0"]
    # non-ASCII names: letters and digits of other scripts (alphanumeric for str.isalnum / \w, not for a Fortran compiler),
    # and pairs that Python identifies after NFKC normalisation (x / fullwidth x, fi / the fi ligature)
    uni = ["\u03c3", "x\u00b2", "x", "\uff58", "fi", "\ufb01", "\u00e9", "y\u0663"]
    names += uni + ["<state>" + u for u in uni] + ["<p>" + u for u in uni[:4]] + ["<func>" + u for u in uni[:2]]
    return names


def lookup(nm, name):
    if name.startswith("<func>"):
        return nm.name_function(name)
    return nm[name]


def py_legal(ident):
    m = re.match(r"^(self\.global_|self\._functions\.|self\.|local)(.*)$", ident)
    if not m:
        return False
    full = ident.split(".")[-1] if "." in ident else ident
    return full.isidentifier() and not keyword.iskeyword(full)


def judge_set(target, names, reserved):
    """Map the names (in the given order, then again) and check the clauses.
    Returns None or a problem string."""
    from dagrt.utils import is_state_variable
    if target == "python":
        import dagrt.codegen.python as P
        nm = P.PythonNameManager()
    else:
        import dagrt.codegen.fortran as F
        nm = F.FortranNameManager()
    first = {}
    try:
        if target == "python" and len(names) >= 2:
            # an earlier phase function used some of the names: locals are reset between phase functions
            for n in names[:len(names) // 2]:
                lookup(nm, n)
            nm.clear_locals()
            for n in reversed(names):
                first[n] = lookup(nm, n)
        else:
            for n in names:
                first[n] = lookup(nm, n)
        for n in reversed(names):
            again = lookup(nm, n)
            if again != first[n]:
                return "lookup of %r gave %r, later %r" % (n, first[n], again)
    except Exception as e:  # noqa
        return "lookup raised %s: %s" % (type(e).__name__, e)
    for n, ident in first.items():
        if target == "python":
            if not py_legal(ident):
                return "%r -> %r is not a legal Python identifier" % (n, ident)
            persistent = is_state_variable(n)
            if not n.startswith("<func>"):
                if persistent != ident.startswith("self."):
                    return "%r (%s) is stored as %r" % (n, "persistent" if persistent else "per-step", ident)
        else:
            base = ident[len("dagrt_state%"):] if ident.startswith("dagrt_state%") else ident
            if not FORTRAN_ID.match(base):
                return "%r -> %r is not a legal Fortran identifier (%d characters)" % (n, base, len(base))
            if not n.startswith("<func>"):
                if is_state_variable(n) != ident.startswith("dagrt_state%"):
                    return "%r (%s) is stored as %r" % (n, "persistent" if is_state_variable(n) else "per-step", ident)
            if base.lower() in reserved and n not in ("<t>", "<dt>"):
                return "%r -> %r clashes with an identifier the generator reserves" % (n, base)
    items = list(first.items())
    for (n1, i1), (n2, i2) in itertools.combinations(items, 2):
        if n1 == n2:
            continue
        if target == "python":
            import unicodedata      # Python compares identifiers after NFKC normalisation
            a, b = unicodedata.normalize("NFKC", i1), unicodedata.normalize("NFKC", i2)
        else:
            a, b = i1.lower(), i2.lower()
        if a == b:
            return "%r and %r both map to %r%s" % (n1, n2, i1 if target == "python" else "%s / %s" % (i1, i2),
                                                  "" if target == "python" else " (equal for a Fortran compiler)")
    return None


def work_sets(item):
    tr = common.FunctionTrace()
    tr.start()
    from vf.symx import Stats
    st = Stats()
    cands = []
    reserved = reserved_fortran()
    n = 0
    for target, names in item["sets"]:
        st.obligations += 1
        n += 1
        bad = judge_set(target, names, reserved)
        if bad is None:
            st.discharged += 1
        else:
            st.refuted += 1
            cands.append({"part": "sets", "target": target, "names": names, "problem": bad})
    tr.stop()
    return {"stats": st.as_dict(), "candidates": cands, "evaluations": n, "distinct_nontrivial": n,
            "samples": [{"target": item["sets"][0][0], "names": item["sets"][0][1]}] if item["sets"] else [],
            "functions": sorted(tr.seen)}


def replay(d):
    if d["part"] == "classify":
        return {"reproduced": True, "detail": d["problem"]}
    bad = judge_set(d["target"], d["names"], reserved_fortran())
    return {"reproduced": bad is not None, "detail": "%s name manager, names %r: %s" % (d["target"], d["names"], bad),
            "problem": bad or ""}


def classify(c, r, open_known):
    if c.get("part") != "sets" or c.get("target") != "fortran":
        return None
    prob = r.get("problem", "")
    for k in open_known:
        if k.get("matcher") == "fortran_case_clash" and "equal for a Fortran compiler" in prob:
            # narrow: the two names differ, their identifiers differ only in letter case
            m = re.search(r"both map to (\S+) / (\S+) ", prob)
            if m and m.group(1) != m.group(2) and m.group(1).lower() == m.group(2).lower():
                return k["id"]
        if k.get("matcher") == "fortran_long_name" and "not a legal Fortran identifier" in prob:
            m = re.search(r"-> '([A-Za-z][A-Za-z0-9_]*)' is not a legal Fortran identifier \((\d+) characters\)", prob)
            if m and int(m.group(2)) > 63:
                # so that the known defect cannot mask another one: the same set without its long names must pass
                rest = [n for n in c["names"] if len(n) <= 40]
                if judge_set("fortran", rest, reserved_fortran()) is None:
                    return k["id"]
    return None


def selftests():
    import dagrt.codegen.utils as U
    res = {}
    ex = Explorer()
    r = ex.explore(harness_classify("is_state_variable"))
    res["classification_paths"] = len(r) >= 7 and all(x is None for _, x in r)
    orig = U.make_identifier_from_name

    def bad(name, default_identifier="dagrt_var"):
        result = "".join([c if c in U._ident_chars else "_" for c in name])
        return result or default_identifier       # no lstrip("_")
    import dagrt.codegen.python as P
    U.make_identifier_from_name = bad
    saved = U.KeyToUniqueNameMap.__init__.__defaults__
    try:
        U.KeyToUniqueNameMap.__init__.__defaults__ = (None, "", bad, None)
        res["fault_leading_underscore_detected"] = judge_set("fortran", ["<state>y", "_y", "<p>k"], set()) is not None
    finally:
        U.KeyToUniqueNameMap.__init__.__defaults__ = saved
        U.make_identifier_from_name = orig
    res["baseline_pair_ok"] = judge_set("python", ["y^", "y*", "<state>y^", "<state>y*"], set()) is None
    return res


def main(tier, seed):
    run = Run(PID, tier, seed, "exploration")
    # part A
    ex_stats = []
    for which in ("is_state_variable", "python", "fortran"):
        ex = Explorer(timeout_ms=20000, max_paths=200)
        res = ex.explore(harness_classify(which))
        run.stats.add(ex.stats)
        run.extra["classification_paths_" + which] = ex.stats.paths
        for trail, r in res:
            if r is not None:
                run.candidates.append({"part": "classify", "which": which, "problem": "%s: %s" % (which, r)})
    # part B
    names = names_family(tier)
    rng = random.Random(seed)
    sets = []
    k = 2
    # all pairs among a focused sub-family + random pairs/triples over the whole family
    focus = [n for n in names if len(n) <= 10][:120]
    for a, b in itertools.combinations(focus, 2):
        if rng.random() < (0.25 if tier == "quick" else 1.0):
            for target in ("python", "fortran"):
                sets.append((target, [a, b]))
                sets.append((target, [b, a]))
    nrand = 2000 if tier == "quick" else 300000
    for _ in range(nrand):
        s = rng.sample(names, rng.choice([2, 3, 3, 4]))
        sets.append((rng.choice(["python", "fortran"]), s))
    for part in pmap("vf.checks.c13", "work_sets", [{"sets": c} for c in chunks(sets, common.NPROC * 2)]):
        run.absorb(part)
    run.bounds = {"names": len(names), "name_sets": len(sets), "set_size": "2..4", "body_alphabet": "y Y _ ^ * 0 <", "non_ascii_names": "sigma, x-superscript-2, fullwidth x, fi ligature, e-acute, arabic digit (bare and tagged)",
                  "tags": ["", "<state>", "<p>", "<func>", "<cond>", "lploc_", "<ret_state>"], "long_names": "64..77 characters"}
    run.selftests = selftests()
    if not all(run.selftests.values()):
        run.harness_errors.append("self-test failed: %r" % run.selftests)
    run.assumptions = [
        "part A is a solver claim over all strings; part B is bounded enumeration (exploration): the name maps hash the name, so it cannot stay symbolic",
        "Fortran identifiers: a letter followed by at most 62 letters, digits or underscores, compared case-insensitively; reserved identifiers are harvested from a generated module (dagrt_*, drtf_*)",
        "user names do not start with dagrt_ (documented)",
        "'the module declaring all names compiles' is a compiler matter and is not checked here",
    ]
    return run.finish(
        rule="part A: 3 dispatchers on a symbolic string; part B: %d name sets (ordered pairs over a focused family + seeded random sets of 2..4 names from %d names), "
             "each mapped in order and looked up again in reverse; non-trivial = every set" % (len(sets), len(names)),
        explanation="z3 String classification obligations (all strings) + bounded enumeration of name sets through the real name managers",
        exhaustive=False, classify=classify, dedup_key=lambda c: (c.get("target"), c.get("problem", "")[:60]) if c.get("part") == "sets" else repr(c))
