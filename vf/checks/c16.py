"""C16 -- fusing two methods runs both on shared persistent state without
interference.

The REAL dagrt.transform.fuse_two_dags is applied to pairs of builder programs
with overlapping temporaries, overlapping statement ids and shared reads of
<t>/<dt>/<state>x.  Structural clauses are concrete.  Semantic clause: the REAL
interpreter runs the fused method and each method alone on the same symbolic
initial state; z3 decides, after every step, that the persistent variables each
method writes have the values that method produces alone (pairs are generated
non-interfering: neither reads or writes what the other writes)."""
import random

import z3

from vf import backends, common, pg, refprog, stmtdsl, symx
from vf.common import Run, pmap, chunks
from vf.symx import Explorer

PID = "C16"

PRED = {
    "default": None,
    "none": lambda name: False,
    "only_temporaries": lambda name: not refprog.is_persistent(name),
}


def gen_pair(rng, idx):
    """Two single- or two-phase programs: A writes <state>y/<p>ka, B writes
    <state>z/<p>kb; both read <state>x, <t>, <dt>; temporaries a,b,c,acc and
    the phase name (hence statement ids) overlap."""
    common_inputs = {"<state>x": "num", "<t>": "num", "<dt>": "num"}
    two = rng.random() < 0.3
    progs = []
    for which, (sv, pv) in enumerate((("<state>y", "<p>ka"), ("<state>z", "<p>kb"))):
        inputs = dict(common_inputs)
        inputs[sv] = "num"
        g = pg.ProgGen(rng, multi_phase=False, max_ops=6, arrays=False, loops=False, control=False,
                       targets=["a", "b", "c", "acc", sv, pv], call_targets=["a", "c", sv], inputs=inputs,
                       scalar_loops=True)
        phases = []
        names = ["main", "aux"] if two else ["main"]
        for n in names:
            defined = dict(inputs)
            budget = [rng.randint(2, 6)]
            ops = g.gen_ops(defined, budget, 0, names)
            phases.append({"name": n, "next": names[(names.index(n) + 1) % len(names)], "ops": ops})
        if two and which == 1 and rng.random() < 0.5:
            phases = phases[:1]
            phases[0]["next"] = "aux"
        progs.append({"name": "pair%d_%s" % (idx, "AB"[which]), "phases": phases, "initial": "main"})
    if rng.random() < 0.3:
        # one method's temporary is called like the (only) loop counter name the generator uses
        k = rng.choice([0, 1])
        used = set(pg.var_roles(progs[k]))
        # (a method that itself loops over i must not get a temporary i: its own loop would unset it -- an ill-formed
        # program of my making, reported as a violation once in the thorough tier; false alarm corrected)
        for ph in progs[k]["phases"]:
            for op in pg.walk_ops(ph["ops"]):
                if op[0] == "assign":
                    used |= {lv for lv, _, _ in op[3]}
        cand = [n for n in ("a", "b", "c") if n in used]
        if cand and "i" not in used:
            nm = progs[k]["name"]
            progs[k] = pg.rename_vars(progs[k], {rng.choice(cand): "i"})
            progs[k]["name"] = nm
    return progs


CORPUS = [
    (pg.P1([["assign", "a", pg.ADD(pg.V("<state>x"), pg.T), []], ["assign", "<state>y", pg.ADD(pg.V("a"), pg.Y), []]]),
     pg.P1([["assign", "a", pg.MUL(pg.V("<state>x"), pg.DT), []], ["assign", "<state>z", pg.ADD(pg.V("a"), pg.T), []]])),
    (pg.P1([["if", ["expr", pg.GT(pg.Y, pg.C(0))], [["assign", "<state>y", pg.ADD(pg.Y, pg.C(-1)), []]],
             [["assign", "<state>y", pg.ADD(pg.Y, pg.T), []]]]]),
     pg.P1([["if", ["expr", pg.GT(pg.Z, pg.DT)], [["assign", "<state>z", pg.C(0), []]], None],
            ["assign", "<p>kb", pg.ADD(pg.Z, pg.V("<state>x")), []]])),
    (pg.P1([["assign", "acc", pg.C(0), []], ["assign", "acc", pg.ADD(pg.V("acc"), pg.V("i")), [["i", pg.C(0), pg.C(3)]]],
            ["assign", "<state>y", pg.V("acc"), []]]),
     pg.P1([["assign", "acc", pg.C(1), []], ["assign", "acc", pg.MUL(pg.V("acc"), pg.ADD(pg.V("i"), pg.C(1))), [["i", pg.C(0), pg.C(2)]]],
            ["assign", "<state>z", pg.V("acc"), []]])),
    # a loop counter of one method is an ordinary per-step temporary of the other (read by several statements)
    (pg.P1([["assign", "acc", pg.C(0), []], ["assign", "acc", pg.ADD(pg.V("acc"), pg.V("i")), [["i", pg.C(0), pg.C(3)]]],
            ["assign", "<state>y", pg.V("acc"), []]]),
     pg.P1([["assign", "i", pg.ADD(pg.V("<state>x"), pg.C(1)), []], ["assign", "<state>z", pg.MUL(pg.V("i"), pg.C(2)), []],
            ["assign", "<p>kb", pg.ADD(pg.V("i"), pg.T), []]])),
    (pg.P1([["assign", "i", pg.ADD(pg.V("<state>x"), pg.DT), []], ["assign", "<p>ka", pg.V("i"), []], ["assign", "<state>y", pg.ADD(pg.V("i"), pg.Y), []]]),
     pg.P1([["assign", "acc", pg.C(1), []], ["assign", "acc", pg.MUL(pg.V("acc"), pg.ADD(pg.V("i"), pg.C(1))), [["i", pg.C(0), pg.C(2)]]],
            ["assign", "<state>z", pg.V("acc"), []]])),
    # a same-named ARRAY temporary in both methods, filled through subscripted assignments
    (pg.P1([["assign", "w", ["call", "<builtin>array", [pg.C(3)], {}], []],
            ["assign", ["sub", "w", pg.V("i")], pg.ADD(pg.V("<state>x"), pg.V("i")), [["i", pg.C(0), pg.C(3)]]],
            ["assign", "<state>y", pg.ADD(["sub", pg.V("w"), pg.C(1)], ["sub", pg.V("w"), pg.C(2)]), []]]),
     pg.P1([["assign", "w", ["call", "<builtin>array", [pg.C(2)], {}], []],
            ["assign", ["sub", "w", pg.V("i")], pg.MUL(pg.V("<state>x"), pg.ADD(pg.V("i"), pg.C(2))), [["i", pg.C(0), pg.C(2)]]],
            ["assign", "<state>z", pg.ADD(["sub", pg.V("w"), pg.C(0)], ["sub", pg.V("w"), pg.C(1)]), []]])),
    # ... and the loop's own statement does not mention its counter (C16-F4)
    (pg.P1([["assign", "i", pg.ADD(pg.V("<state>x"), pg.C(1)), []], ["assign", "<state>y", pg.MUL(pg.V("i"), pg.C(2)), []],
            ["assign", "<p>ka", pg.ADD(pg.V("i"), pg.T), []]]),
     pg.P1([["assign", "acc", pg.C(1), []], ["assign", "acc", pg.ADD(pg.V("acc"), pg.C(2)), [["i", pg.C(0), pg.C(3)]]],
            ["assign", "<state>z", pg.V("acc"), []]])),
    (pg.P1([["assign", "acc", pg.C(0), []], ["assign", "acc", pg.ADD(pg.V("acc"), pg.DT), [["i", pg.C(0), pg.C(2)]]],
            ["assign", "<state>y", pg.V("acc"), []]]),
     pg.P1([["assign", "i", pg.V("<state>x"), []], ["assign", "<state>z", pg.ADD(pg.V("i"), pg.Z), []], ["assign", "<p>kb", pg.V("i"), []]])),
    (pg.P1([["assign_call", ["a"], "<func>f", [pg.T, pg.Y], {}], ["assign", "<state>y", pg.ADD(pg.Y, pg.MUL(pg.DT, pg.V("a"))), []],
            pg.yld(pg.Y)]),
     pg.P1([["assign_call", ["a"], "<func>g", [pg.T, pg.Z], {}], ["assign", "<state>z", pg.ADD(pg.Z, pg.MUL(pg.DT, pg.V("a"))), []],
            pg.yld(pg.Z, comp="z")])),
]


IDMAPS = {}


def fuse(dag1, dag2, pred_name):
    """Real fuse_two_dags; the id map pymbolic computes for each phase (which
    dagrt discards) is captured on the way for the structural oracle."""
    from dagrt.transform import fuse_two_dags
    import pymbolic.imperative.transform as T
    kw = {}
    if PRED[pred_name] is not None:
        kw["should_disambiguate_name"] = PRED[pred_name]
    orig = T.disambiguate_and_fuse
    IDMAPS.clear()

    def spy(a, b, *args, **kwargs):
        r = orig(a, b, *args, **kwargs)
        key = frozenset(s.id for s in b)
        IDMAPS[key] = dict(r[2])
        return r
    T.disambiguate_and_fuse = spy
    try:
        return fuse_two_dags(dag1, dag2, **kw)
    finally:
        T.disambiguate_and_fuse = orig


def names_of(stmts):
    """Every variable name the statements mention, collected independently of the statements' own declared read / write
    sets (which fusion itself relies on): assignees, loop identifiers, and the variables of every expression."""
    from pymbolic.mapper.dependency import DependencyMapper
    from pymbolic.primitives import Variable
    dm = DependencyMapper(include_subscripts=False, include_lookups=False, include_calls="descend_args", composite_leaves=False)
    out = set()

    def coll(e):
        try:
            out.update(v.name for v in dm(e) if isinstance(v, Variable))
        except Exception:  # noqa
            pass
        return e
    for s in stmts:
        out |= set(s.get_read_variables()) | set(s.get_written_variables())
        s.map_expressions(coll)
        if getattr(s, "condition", True) is not True:
            coll(s.condition)
        for ident, lo, hi in (getattr(s, "loops", None) or []):
            out.add(ident)
            coll(lo)
            coll(hi)
        if getattr(s, "assignee", None):
            out.add(s.assignee)
        for a in (getattr(s, "assignees", None) or []):
            out.add(a)
    return {n for n in out if not n.startswith("<func>") and not n.startswith("<builtin>")}


def structural(dag1, dag2, fused, pred_name):
    """Concrete clauses; returns list of problems."""
    probs = []
    for pname in set(dag1.phases) | set(dag2.phases):
        if pname not in fused.phases:
            probs.append("phase %s missing from the fused method" % pname)
            continue
        f = list(fused.phases[pname].statements)
        a = list(dag1.phases[pname].statements) if pname in dag1.phases else []
        b = list(dag2.phases[pname].statements) if pname in dag2.phases else []
        ids = [s.id for s in f]
        if len(set(ids)) != len(ids):
            probs.append("phase %s: statement ids not unique: %s" % (pname, sorted(ids)))
        if len(f) != len(a) + len(b):
            probs.append("phase %s: %d statements, expected %d + %d" % (pname, len(f), len(a), len(b)))
            continue
        if not a or not b:
            continue
        fa = {s.id: s for s in f}
        # A's statements unchanged
        for s in a:
            t = fa.get(s.id)
            if t is None or str(t) != str(s) or set(t.depends_on) != set(s.depends_on):
                probs.append("phase %s: statement %s of the first method changed or vanished" % (pname, s.id))
        rest = [s for s in f if s.id not in {x.id for x in a}]
        # B's statements: id map as computed by pymbolic during the call
        idmap = dict(IDMAPS.get(frozenset(s.id for s in b), {}))
        for s in b:
            r = fa.get(idmap.get(s.id))
            if r is None or type(r) is not type(s) or r.id in {x.id for x in a}:
                probs.append("phase %s: no fused statement corresponds to %s of the second method" % (pname, s.id))
                idmap.pop(s.id, None)
        if len(set(idmap.values())) != len(idmap):
            probs.append("phase %s: id map of the second method is not injective" % pname)
        for s in b:
            if s.id in idmap:
                want = {idmap.get(d, "?" + d) for d in s.depends_on}
                got = set(fa[idmap[s.id]].depends_on)
                if want != got:
                    probs.append("phase %s: dependencies of %s are %s, expected %s" % (pname, idmap[s.id], sorted(got), sorted(want)))
        # names
        na = names_of(a)
        nb_fused = names_of([fa[idmap[s.id]] for s in b if s.id in idmap])
        nb = names_of(b)
        ta = {n for n in na if not refprog.is_persistent(n)}
        tb = {n for n in nb_fused if not refprog.is_persistent(n)}
        if pred_name in ("default", "only_temporaries") and ta & tb:
            probs.append("phase %s: per-step temporaries shared by both methods after fusion: %s" % (pname, sorted(ta & tb)))
        pers_b = {n for n in nb if refprog.is_persistent(n)}
        if pred_name in ("default", "only_temporaries", "none"):
            lost = pers_b - nb_fused
            if lost:
                probs.append("phase %s: persistent names of the second method were renamed: %s (now %s)"
                             % (pname, sorted(lost), sorted(n for n in nb_fused - nb)))
        if pred_name == "none" and nb_fused != nb:
            probs.append("phase %s: predicate asked for no renaming but names changed: %s" % (pname, sorted(nb_fused ^ nb)))
    return probs


def written_persistent(dag):
    out = set()
    for ph in dag.phases.values():
        for s in ph.statements:
            out |= {n for n in s.get_written_variables() if refprog.is_persistent(n)}
    return out


def run_steps(dag, prog_for_init, K, concrete=None, ufs=None):
    """Yield persistent snapshots after each completed/failed step."""
    funcs = backends.sym_user_functions() if concrete is None else backends.concrete_user_functions(ufs or {})
    it = backends.make_interpreter(dag, funcs, builtin_stubs=concrete is None)
    if concrete is None:
        # <builtin>array(n) for a constant n: a real (zero-filled) array of proxies, so that array temporaries and
        # subscripted assignments are executed (the other built-ins stay uninterpreted)
        def sym_array(n):
            if isinstance(n, symx.SymNum):
                n1 = z3.simplify(n.t)
                if not z3.is_int_value(n1):
                    raise symx.Unmodelled("array of symbolic size")
                n = n1.as_long()
            return symx.SymArr([symx.SymNum(0) for _ in range(int(n))])
        it.functions["<builtin>array"] = sym_array
    t0, dt0, ctx = backends.initial_values(prog_for_init, concrete=concrete)
    it.set_up(t_start=t0, dt_start=dt0, context=ctx)
    snaps = []
    try:
        n = 0
        for ev in it.run(max_steps=K):
            n += 1
            if type(ev).__name__ in ("StepCompleted", "StepFailed"):
                snaps.append(dict(backends.persistent_interp(it)[0]))
            if n > 24:
                break
    except (symx.Abort, symx.Unmodelled, symx.BudgetExceeded):
        raise
    except (ZeroDivisionError, OverflowError, IndexError):
        raise symx.Abort()
    except Exception as e:  # noqa
        snaps.append({"!error": "%s: %s" % (type(e).__name__, str(e)[:100])})
    return snaps


def union_prog(pa, pb):
    """A pseudo program mentioning the variables of both (for initial values)."""
    return {"phases": pa["phases"] + pb["phases"], "initial": pa["initial"]}


def semantic_harness(pa, pb, dag1, dag2, fused, K):
    both = union_prog(pa, pb)
    wa, wb = written_persistent(dag1), written_persistent(dag2)

    def h(ex):
        sf = run_steps(fused, both, K)
        s1 = run_steps(dag1, both, K)
        s2 = run_steps(dag2, both, K)
        for step, snap in enumerate(sf):
            if "!error" in snap:
                return {"problem": "fused method raises %s" % snap["!error"]}, ex.path_model()
            for alone, w, nm in ((s1, wa, "first"), (s2, wb, "second")):
                if step >= len(alone) or "!error" in alone[step]:
                    continue
                for v in sorted(w):
                    if v not in alone[step]:
                        continue
                    if v not in snap:
                        return {"problem": "step %d: fused method lacks persistent %s of the %s method" % (step, v, nm)}, ex.path_model()
                    verdict, m = ex.prove(symx.sym_eq(snap[v], alone[step][v]))
                    if verdict == "refuted":
                        return {"problem": "step %d: %s = %r in the fused method, %r when the %s method runs alone"
                                % (step, v, snap[v], alone[step][v], nm)}, m
        return None
    return h


def non_interfering(dag1, dag2):
    def rw(dag):
        r, w = set(), set()
        for ph in dag.phases.values():
            for s in ph.statements:
                r |= {n for n in s.get_read_variables() if refprog.is_persistent(n)}
                w |= {n for n in s.get_written_variables() if refprog.is_persistent(n)}
        return r, w
    r1, w1 = rw(dag1)
    r2, w2 = rw(dag2)
    return not (w1 & (r2 | w2)) and not (w2 & (r1 | w1))


def check_pair(pa, pb, K):
    from vf.symx import Stats
    st = Stats()
    cands = []
    try:
        dag1, _ = pg.build_dag(pa)
        dag2, _ = pg.build_dag(pb)
    except Exception:  # noqa
        return st, cands, {"paths": 0}
    paths = 0
    for pred_name in PRED:
        st.obligations += 1
        try:
            fused = fuse(dag1, dag2, pred_name)
        except Exception as e:  # noqa
            st.refuted += 1
            cands.append({"pa": pa, "pb": pb, "pred": pred_name, "kind": "exception",
                          "problem": "fuse_two_dags raised %s: %s" % (type(e).__name__, str(e)[:100])})
            continue
        probs = structural(dag1, dag2, fused, pred_name)
        if probs:
            st.refuted += 1
            cands.append({"pa": pa, "pb": pb, "pred": pred_name, "kind": "structural", "problem": probs[0]})
            continue
        st.discharged += 1
        if pred_name == "none":
            continue   # shared temporaries may interfere by the caller's own choice
        if not non_interfering(dag1, dag2):
            continue
        ex = Explorer(timeout_ms=1500, max_paths=120, max_decisions=250, wall_s=20)
        ex.label = "%s + %s" % (pa.get("name"), pb.get("name"))
        res = ex.explore(semantic_harness(pa, pb, dag1, dag2, fused, K))
        st.add(ex.stats)
        paths += ex.stats.paths
        for trail, r in res:
            if r is not None:
                info, m = r
                from vf.checks import c01
                cands.append({"pa": pa, "pb": pb, "pred": pred_name, "kind": "semantic", "K": K, "problem": info["problem"],
                              "init": c01.concrete_init(union_prog(pa, pb), m) if m is not None else None,
                              "ufs": backends.uf_tables_from_model(m) if m is not None else {}})
                break
    return st, cands, {"paths": paths}


def work(item):
    tr = common.FunctionTrace()
    tr.start()
    from vf.symx import Stats
    st = Stats()
    cands, samples = [], []
    n = nontriv = 0
    for pa, pb in item["pairs"]:
        s, c, info = check_pair(pa, pb, item["K"])
        st.add(s)
        n += 1
        if info["paths"] >= 1:
            nontriv += 1
        cands.extend(c[:1])
        if len(samples) < 1 and info["paths"] >= 2:
            samples.append({"first": pa.get("name"), "second": pb.get("name"), "paths": info["paths"]})
    tr.stop()
    return {"stats": st.as_dict(), "candidates": cands, "evaluations": n, "programs": n,
            "distinct_nontrivial": nontriv, "samples": samples, "functions": sorted(tr.seen)}


def replay(d):
    pa, pb = d["pa"], d["pb"]
    dag1, _ = pg.build_dag(pa)
    dag2, _ = pg.build_dag(pb)
    try:
        fused = fuse(dag1, dag2, d["pred"])
    except Exception as e:  # noqa
        return {"reproduced": True, "detail": "fuse_two_dags(%s, %s) raised %s: %s" % (pa.get("name"), pb.get("name"), type(e).__name__, e)}
    if d["kind"] == "exception":
        return {"reproduced": False, "detail": "no exception on replay"}
    probs = structural(dag1, dag2, fused, d["pred"])
    if d["kind"] == "structural":
        return {"reproduced": bool(probs), "detail": "pair (%s, %s) predicate=%s: %s\nfused:\n%s" % (
            pa.get("name"), pb.get("name"), d["pred"], probs[:2], str(fused)[:1500])}
    both = union_prog(pa, pb)
    inits = [d["init"]] if d.get("init") else []
    rng = random.Random(2)
    roles = pg.var_roles(both)
    for _ in range(10):
        ctx = {n[7:]: rng.randint(-4, 6) for n in roles if n.startswith("<state>")}
        inits.append({"t0": rng.randint(0, 3), "dt0": rng.randint(1, 3), "t_end": 3, "context": ctx})
    wa, wb = written_persistent(dag1), written_persistent(dag2)
    for init in inits:
        try:
            sf = run_steps(fused, both, d["K"], concrete=init, ufs=d.get("ufs"))
            s1 = run_steps(dag1, both, d["K"], concrete=init, ufs=d.get("ufs"))
            s2 = run_steps(dag2, both, d["K"], concrete=init, ufs=d.get("ufs"))
        except symx.Abort:
            continue
        for step, snap in enumerate(sf):
            if "!error" in snap:
                return {"reproduced": True, "detail": "fused (%s, %s) init %s: %s\n%s" % (pa.get("name"), pb.get("name"), init, snap["!error"], str(fused)[:1200])}
            for alone, w, nm in ((s1, wa, "first"), (s2, wb, "second")):
                if step >= len(alone) or "!error" in alone[step]:
                    continue
                for v in w:
                    if v in alone[step] and (v not in snap or snap[v] != alone[step][v]):
                        return {"reproduced": True, "detail": "pair (%s, %s) predicate=%s init %s step %d: %s = %s fused, %s alone (%s method)\nfused:\n%s"
                                % (pa.get("name"), pb.get("name"), d["pred"], init, step, v, snap.get(v), alone[step][v], nm, str(fused)[:1200])}
    return {"reproduced": False, "detail": "fused and separate runs agree on replay"}


def classify(c, r, open_known):
    return None


def selftests():
    res = {}
    pa, pb = CORPUS[0]
    pa = dict(pa, name="A0")
    pb = dict(pb, name="B0")
    s, c, info = check_pair(pa, pb, 2)
    res["baseline_pair_ok"] = not c and info["paths"] >= 1
    import pymbolic.imperative.transform as T
    orig = T.fuse_statement_streams_with_unique_ids

    def bad(a, b):
        return list(a) + list(b), {s.id: s.id for s in b}
    T.fuse_statement_streams_with_unique_ids = bad
    try:
        s, c, info = check_pair(pa, pb, 2)
        res["fault_ids_not_renamed_detected"] = bool(c)
    finally:
        T.fuse_statement_streams_with_unique_ids = orig
    return res


def main(tier, seed):
    run = Run(PID, tier, seed, "translation_validation")
    pairs = []
    for i, (a, b) in enumerate(CORPUS):
        pairs.append((dict(a, name="A%d" % i), dict(b, name="B%d" % i)))
    ncur = len(pairs)
    rng = random.Random(seed)
    nrand = 200 if tier == "quick" else 6000
    for i in range(nrand):
        pairs.append(tuple(gen_pair(rng, i)))
    K = 2 if tier == "quick" else 3
    for part in pmap("vf.checks.c16", "work", [{"pairs": p, "K": K} for p in chunks(pairs, common.NPROC * 4)]):
        run.absorb(part)
    run.bounds = {"curated_pairs": ncur, "random_pairs": nrand, "steps": K, "predicates": list(PRED),
                  "ops_per_phase": "<= 6", "phases": "1..2 (second method may lack a phase)"}
    run.selftests = selftests()
    if not all(run.selftests.values()):
        run.harness_errors.append("self-test failed: %r" % run.selftests)
    run.assumptions = [
        "semantic clause is checked on non-interfering pairs: neither method reads or writes a persistent variable the other writes (shared reads of <t>, <dt>, <state>x are allowed)",
        "the id map of the second method is the one pymbolic's disambiguate_and_fuse computes during the call (captured by a spy; dagrt discards it)",
        "user functions are pure uninterpreted functions; values are mathematical integers",
        "with predicate 'none' the semantic clause is skipped (shared temporaries are then the caller's choice)",
    ]
    return run.finish(
        rule="pairs of builder programs with overlapping temporaries (a,b,c,acc,i), identical phase names (hence clashing statement ids), shared reads "
             "of <t>,<dt>,<state>x: %d curated + %d seeded random, each under 3 renaming predicates; non-trivial = semantic comparison reached" % (ncur, nrand),
        explanation="real fuse_two_dags; structural clauses concrete; fused vs separate interpreter runs compared per step and per written persistent variable by z3",
        classify=classify)
