"""C15 -- generated source text is a pure function of the method description.

The REAL Python and Fortran generators and the REAL interpreter run with the
iteration order of every set as a SYMBOLIC input: the names `frozenset`/`set`
are rebound in dagrt's module globals to ranked containers (one z3 rank per
element; comparing two ranks forks), the containers the caller supplies
(phase.statements, depends_on) are ranked instances.  `sorted`/`natsorted`
read their argument without forking (their result cannot depend on it).  One
universe is symbolic at a time (statements | names).  On all paths the emitted
text and the interpreter's event trace must be identical.  A second clause
generates P after an unrelated Q with fresh generator objects (history).
Candidates are replayed without proxies: permuted statement lists in-process
and a PYTHONHASHSEED scan in subprocesses."""
import hashlib
import json
import os
import random
import subprocess
import sys

import z3

from vf import backends, common, pg, ranked, symx
from vf.common import Run, pmap, chunks
from vf.symx import Explorer

PID = "C15"

V, C, ADD, MUL = pg.V, pg.C, pg.ADD, pg.MUL
T, DT = pg.T, pg.DT
U, W = V("<state>u"), V("<state>w")


def fortran_corpus():
    F = lambda *a: ["call", "<func>f", list(a), {}]  # noqa
    progs = [
        pg.P1([["assign_call", ["k"], "<func>f", [T, U], {}], ["assign", "<state>u", ADD(U, MUL(DT, V("k"))), []],
               pg.yld(U, comp="u"), pg.STEP]),
        # two variables read and written by one statement (self-dependence temporaries)
        pg.P1([["assign", "a", U, []], ["assign", "b", U, []], ["assign_call", ["a", "b"], "<func>h", [V("a"), V("b")], {}],
               ["assign", "<state>u", ADD(V("a"), V("b")), []]]),
        # several user-type temporaries whose last use is the same statement
        pg.P1([["assign_call", ["<state>u"], "<func>f", [T, U], {}],
               ["assign", "a", MUL(U, C(2)), []], ["assign", "b", MUL(U, C(3)), []], ["assign", "c", MUL(U, C(4)), []],
               ["assign", "<state>u", ADD(V("a"), V("b"), V("c")), []]]),
        pg.P1([["assign", "n", ["call", "<builtin>norm_2", [U], {}], []],
               ["if", ["expr", pg.GT(V("n"), C(1))], [["assign", "<state>u", MUL(U, C(0.5)), []], ["fail"]], None],
               ["assign", "<state>u", ADD(U, F(T, U)), []], pg.STEP]),
        {"phases": [{"name": "a", "next": "b", "ops": [["assign", "<state>u", ADD(U, F(T, U)), []], pg.yld(U, comp="u")]},
                    {"name": "b", "next": "a", "ops": [["assign", "x", MUL(U, DT), []], ["assign", "y", ADD(U, V("x")), []],
                                                       ["assign", "<state>u", ADD(V("x"), V("y")), []], pg.STEP]}], "initial": "a"},
    ]
    for i, p in enumerate(progs):
        p["name"] = "f15_%d" % i
    return progs


def fortran_generate(dag, fresh_types=True):
    import contextlib
    import io
    import dagrt.codegen.fortran as F
    from dagrt.function_registry import base_function_registry, register_ode_rhs, register_function
    from dagrt.data import UserType
    freg = register_ode_rhs(base_function_registry, "u", identifier="<func>f")
    freg = freg.register_codegen("<func>f", "fortran", F.CallCode("""
        ${result} = -2*${u}
        """))
    freg = register_function(freg, "<func>h", ("a", "b"), result_names=("r1", "r2"),
                             result_kinds=(UserType("u"), UserType("u")))
    freg = freg.register_codegen("<func>h", "fortran", F.CallCode("""
        ${r1} = ${a}
        ${r2} = ${b}
        """))
    utm = {"u": F.ArrayType((2,), F.BuiltinType("real*8"), index_vars="i")}
    with contextlib.redirect_stdout(io.StringIO()):
        return F.CodeGenerator("m", function_registry=freg, user_type_map=utm)(dag)


def python_generate(dag):
    from dagrt.codegen import PythonCodeGenerator
    return PythonCodeGenerator(class_name="M")(dag)


def interpreter_trace(dag, prog):
    """Event trace on a fixed concrete input (the order dimension is what is
    symbolic here)."""
    import numpy as np
    from dagrt.exec_numpy import NumpyInterpreter
    funcs = {"<func>f": lambda *a, **k: -2 * a[-1] if a else 1,
             "<func>g": lambda *a, **k: 3, "<func>h": lambda a, b: (a, b), "<func>h2": lambda *a, **k: (1, 2)}
    it = NumpyInterpreter(dag, function_map=funcs)
    roles = pg.var_roles(prog)
    ctx = {}
    for n, r in roles.items():
        if n.startswith("<state>"):
            k = n[7:]
            ctx[k] = np.array([1.0, 2.0]) if k in ("u", "w") else (np.array([1.0, 2.0, 3.0]) if r == "arr" else 2)
    it.set_up(t_start=0, dt_start=1, context=ctx)
    out = []
    try:
        for ev in it.run(max_steps=2):
            out.append(repr(backends.norm_event(ev)))
            if len(out) > 20:
                break
    except Exception as e:  # noqa
        # an error raised by a Raise statement is an observable result; a Python-level error (IndexError, TypeError, ...)
        # of an ill-formed program is not: when two independent statements both fail, which one is met first is
        # legitimately schedule-dependent (false alarm corrected, DESIGN.md 12.4)
        from vf import stmtdsl
        own = any(isinstance(e, c) for c in stmtdsl.ERR_CLASSES.values())
        out.append("exc:" + (type(e).__name__ if own else "!python-level error"))
    return out


def ranked_dag(prog):
    """Build with the real builder, then hand the containers over as ranked
    instances (what the caller supplies)."""
    import dagrt.language as L
    RankedPhase = _ranked_phase_class()
    dag0, builders = pg.build_dag(prog)
    phases = {}
    for name, ph in dag0.phases.items():
        stmts = []
        for s in builders[name].statements:
            s2 = s.copy()
            s2.depends_on = ranked.RankedFS(s.depends_on)
            stmts.append(s2)
        phases[name] = RankedPhase(name=name, next_phase=ph.next_phase, statements=ranked.RankedFS(stmts))
    return L.DAGCode(phases, dag0.initial_phase)


def _ranked_phase_class():
    import dagrt.language as L

    class RankedPhase(L.ExecutionPhase):
        """stub: ExecutionPhase.depends_on is built by a set comprehension, which the injection of ranked
        containers cannot reach; its result is re-wrapped so that the sink set's iteration order is symbolic too"""
        @property
        def depends_on(self):
            return ranked.RankedFS(L.ExecutionPhase.depends_on.fget(self))
    return RankedPhase


def artefacts(prog, kind):
    dag = ranked_dag(prog)
    if kind == "python":
        return python_generate(dag)
    if kind == "fortran":
        return fortran_generate(dag)
    return json.dumps(interpreter_trace(dag, prog))


def harness(prog, kind, universe):
    first = {}

    def h(ex):
        ranked.reset()
        ids = set()
        for ph in prog["phases"]:
            for k in range(200):
                ids.add("s:%s_%d" % (ph["name"], k))
        if universe == "names":
            ranked.FIXED["pred"] = lambda key: key.startswith("id:") or key in ids
        else:
            ranked.FIXED["pred"] = lambda key: not (key.startswith("id:") or key in ids)
        try:
            with ranked.installed():
                txt = artefacts(prog, kind)
        except (symx.Abort, symx.Unmodelled, symx.BudgetExceeded):
            raise
        except Exception as e:  # noqa
            txt = "EXC %s: %s" % (type(e).__name__, str(e)[:100])
        finally:
            ranked.FIXED["pred"] = None
        ex.stats.obligations += 1
        dig = hashlib.sha256(txt.encode()).hexdigest()
        if "dig" not in first:
            first["dig"] = dig
            first["txt"] = txt
        if dig == first["dig"]:
            ex.stats.discharged += 1
            return None
        ex.stats.refuted += 1
        a, b = first["txt"].splitlines(), txt.splitlines()
        diff = [(x, y) for x, y in zip(a, b) if x != y][:3]
        return {"diff": diff}
    return h


MAX_STMTS_FOR_STATEMENT_UNIVERSE = 5


def check_program(prog, kinds, max_paths):
    from vf.symx import Stats
    st = Stats()
    cands = []
    paths = 0
    try:
        _, builders = pg.build_dag(prog)
        biggest = max(len(cb.statements) for cb in builders.values())
    except Exception:  # noqa
        return st, cands, 0
    universes = ["names"]
    if biggest <= MAX_STMTS_FOR_STATEMENT_UNIVERSE:
        # every storage order of n statements is a path (n!): only small phases
        universes.insert(0, "statements")
    for kind in kinds:
        for universe in universes:
            ex = Explorer(timeout_ms=5000, max_paths=max_paths, max_decisions=400, wall_s=40)
            res = ex.explore(harness(prog, kind, universe))
            st.add(ex.stats)
            paths += ex.stats.paths
            for trail, r in res:
                if r is not None:
                    cands.append({"clause": "order", "prog": prog, "kind": kind, "universe": universe, "diff": r["diff"]})
                    break
    return st, cands, paths


def history_check(prog, kind):
    """Generate P alone, then Q, then P again in the same process with fresh
    generator objects."""
    dag, _ = pg.build_dag(prog)
    gen = python_generate if kind == "python" else fortran_generate_fresh_types
    a = gen(dag)
    q = pg.corpus()[0]
    dq, _ = pg.build_dag(q)
    python_generate(dq)
    try:
        fortran_generate_fresh_types(pg.build_dag(fortran_corpus()[2])[0])
    except Exception:  # noqa
        pass
    dag2, _ = pg.build_dag(prog)
    b = gen(dag2)
    if a != b:
        diff = [(x, y) for x, y in zip(a.splitlines(), b.splitlines()) if x != y][:3]
        return diff
    return None


HOOK = "notify_pre_state_update"


def fortran_generate_opts(dag, hook, instrument):
    """Fortran generator with explicit index variables (so that the ArrayType counter does not interfere),
    optional instrumentation and an optional state-update hook."""
    import contextlib
    import io
    import dagrt.codegen.fortran as F
    from dagrt.function_registry import base_function_registry, register_ode_rhs, register_function
    from dagrt.data import UserType
    freg = register_ode_rhs(base_function_registry, "u", identifier="<func>f")
    freg = freg.register_codegen("<func>f", "fortran", F.CallCode("""
        ${result} = -2*${u}
        """))
    freg = register_function(freg, "<func>h", ("a", "b"), result_names=("r1", "r2"),
                             result_kinds=(UserType("u"), UserType("u")))
    freg = freg.register_codegen("<func>h", "fortran", F.CallCode("""
        ${r1} = ${a}
        ${r2} = ${b}
        """))
    freg = register_function(freg, HOOK, arg_names=("updated_component",))
    freg = freg.register_codegen(HOOK, "fortran", F.CallCode("""
        call my_notify(${updated_component})
        """))
    utm = {"u": F.ArrayType((2,), F.BuiltinType("real*8"), index_vars="i")}
    kw = {}
    if instrument:
        kw.update(emit_instrumentation=True, timing_function="second")
    if hook:
        kw.update(call_before_state_update=HOOK, call_after_state_update=HOOK)
    with contextlib.redirect_stdout(io.StringIO()):
        return F.CodeGenerator("m", function_registry=freg, user_type_map=utm, **kw)(dag)


def history_same_dag(prog):
    """One DAGCode object handed to several separate generator objects with different options: the text a
    generator emits must equal what an identical generator emits on a fresh DAGCode of the same method."""
    out = []
    for instrument in (False, True):
        ref = fortran_generate_opts(pg.build_dag(prog)[0], False, instrument)
        dag, _ = pg.build_dag(prog)
        fortran_generate_opts(dag, True, instrument)
        python_generate(dag)
        again = fortran_generate_opts(dag, False, instrument)
        if again != ref:
            a, b = ref.splitlines(), again.splitlines()
            import difflib
            d = [l for l in difflib.unified_diff(a, b, lineterm="", n=0) if l[:1] in "+-" and not l.startswith(("+++", "---"))][:4]
            out.append(("instrumented" if instrument else "plain", d))
    return out


def same_dag_twice(prog):
    """The SAME DAGCode object generated twice (fresh generator objects): identical text both times, and the method
    description itself (its printed form) is not changed by generating code from it."""
    dag, _ = pg.build_dag(prog)
    before = str(dag)
    a = python_generate(dag)
    mid = str(dag)
    b = python_generate(dag)
    c = python_generate(dag)
    out = []
    if mid != before or str(dag) != before:
        out.append(("python", ["generating code changed the method description (printed DAGCode differs)"]))
    for nm, x in (("second", b), ("third", c)):
        if x != a:
            import difflib
            d = [l for l in difflib.unified_diff(a.splitlines(), x.splitlines(), lineterm="", n=0) if l[:1] in "+-" and not l.startswith(("+++", "---"))][:4]
            out.append(("python " + nm + " invocation", d))
            break
    return out


def fortran_generate_fresh_types(dag):
    """As a user would on every invocation: fresh ArrayType with default index
    variables."""
    import contextlib
    import io
    import dagrt.codegen.fortran as F
    from dagrt.function_registry import base_function_registry, register_ode_rhs, register_function
    from dagrt.data import UserType
    freg = register_ode_rhs(base_function_registry, "u", identifier="<func>f")
    freg = freg.register_codegen("<func>f", "fortran", F.CallCode("""
        ${result} = -2*${u}
        """))
    freg = register_function(freg, "<func>h", ("a", "b"), result_names=("r1", "r2"),
                             result_kinds=(UserType("u"), UserType("u")))
    freg = freg.register_codegen("<func>h", "fortran", F.CallCode("""
        ${r1} = ${a}
        ${r2} = ${b}
        """))
    utm = {"u": F.ArrayType((2,), F.BuiltinType("real*8"))}
    with contextlib.redirect_stdout(io.StringIO()):
        return F.CodeGenerator("m", function_registry=freg, user_type_map=utm)(dag)


def work(item):
    tr = common.FunctionTrace()
    tr.start()
    from vf.symx import Stats
    st = Stats()
    cands, samples = [], []
    n = nontriv = 0
    for prog, kinds in item["jobs"]:
        s, c, paths = check_program(prog, kinds, item["max_paths"])
        st.add(s)
        n += 1
        if paths >= 4:
            nontriv += 1
        seen = set()
        for x in c:
            if (x["kind"], x["universe"]) not in seen:
                seen.add((x["kind"], x["universe"]))
                cands.append(x)
        if len(samples) < 1 and paths >= 4:
            samples.append({"program": prog.get("name"), "kinds": kinds, "order_paths": paths})
    tr.stop()
    return {"stats": st.as_dict(), "candidates": cands, "evaluations": n, "distinct_nontrivial": nontriv,
            "samples": samples, "functions": sorted(tr.seen)}


# ---------------------------------------------------------------------------
# replay

SEED_SCRIPT = r'''
import sys, json, hashlib
sys.path.insert(0, %(repo)r); sys.path.insert(0, %(verif)r)
import warnings; warnings.simplefilter("ignore")
from vf import pg
from vf.checks import c15
prog = json.loads(%(prog)r)
dag, _ = pg.build_dag(prog)
kind = %(kind)r
if kind == "python": txt = c15.python_generate(dag)
elif kind == "fortran": txt = c15.fortran_generate(dag)
else: txt = json.dumps(c15.interpreter_trace(dag, prog))
print("DIGEST", hashlib.sha256(txt.encode()).hexdigest())
'''


def seed_scan(prog, kind, seeds):
    digs = {}
    procs = []
    for sd in seeds:
        env = dict(os.environ)
        env["PYTHONHASHSEED"] = str(sd)
        code = SEED_SCRIPT % {"repo": common.REPO, "verif": common.VERIF, "prog": json.dumps(prog), "kind": kind}
        procs.append((sd, subprocess.Popen([sys.executable, "-c", code], stdout=subprocess.PIPE, stderr=subprocess.PIPE,
                                           text=True, env=env, cwd=common.VERIF)))
        if len(procs) >= 16:
            for s2, p in procs:
                out, err = p.communicate(timeout=120)
                for line in out.splitlines():
                    if line.startswith("DIGEST "):
                        digs[s2] = line.split()[1]
            procs = []
    for s2, p in procs:
        out, err = p.communicate(timeout=120)
        for line in out.splitlines():
            if line.startswith("DIGEST "):
                digs[s2] = line.split()[1]
    return digs


def replay(d):
    prog, kind = d["prog"], d["kind"]
    if d["clause"] == "same_dag_twice":
        diff = same_dag_twice(prog)
        return {"reproduced": bool(diff), "detail": "program %s: the same DAGCode object generated repeatedly: %s" % (prog.get("name"), diff)}
    if d["clause"] == "history_same_dag":
        diff = history_same_dag(prog)
        return {"reproduced": bool(diff),
                "detail": "program %s: Fortran text of a generator differs when another generator object (with a state-update hook) ran on the same DAGCode before: %s" % (prog.get("name"), diff)}
    if d["clause"] == "history":
        diff = history_check(prog, kind)
        return {"reproduced": diff is not None, "history": True,
                "detail": "program %s: %s text differs when generated after another method in the same process: %s" % (prog.get("name"), kind, diff)}
    # (1) caller-supplied containers: permute the statement lists
    import dagrt.language as L
    import itertools
    dag0, builders = pg.build_dag(prog)
    texts = {}
    for order_no in range(6):
        phases = {}
        for name, ph in dag0.phases.items():
            stmts = list(builders[name].statements)
            random.Random(order_no).shuffle(stmts)
            if order_no == 0:
                stmts = list(builders[name].statements)
            phases[name] = L.ExecutionPhase(name=name, next_phase=ph.next_phase, statements=stmts)
        dag = L.DAGCode(phases, dag0.initial_phase)
        try:
            txt = python_generate(dag) if kind == "python" else fortran_generate(dag) if kind == "fortran" else json.dumps(interpreter_trace(dag, prog))
        except Exception as e:  # noqa
            txt = "EXC %s" % type(e).__name__
        texts[order_no] = hashlib.sha256(txt.encode()).hexdigest()
    if len(set(texts.values())) > 1:
        return {"reproduced": True, "detail": "program %s: %s output depends on the order of the statement list handed in: %s" % (prog.get("name"), kind, texts)}
    # (2) sets built inside dagrt: scan hash seeds
    digs = seed_scan(prog, kind, range(0, 32))
    if len(set(digs.values())) > 1:
        by = {}
        for sd, dg in digs.items():
            by.setdefault(dg[:12], []).append(sd)
        return {"reproduced": True, "detail": "program %s: %s output differs between PYTHONHASHSEED values: %s" % (prog.get("name"), kind, by)}
    return {"reproduced": False, "detail": "identical output for 6 statement orders and 32 hash seeds"}


def classify(c, r, open_known):
    for k in open_known:
        if k.get("matcher") == "arraytype_index_counter" and c.get("clause") == "history" and c.get("kind") == "fortran":
            diff = c.get("diff") or []
            import re
            # narrow: every differing line differs only in the number of an index variable i<N>
            norm = lambda t: re.sub(r"\b(drtf_)?i\d+\b", "IDX", re.sub(r"\b(drtf_)?i\d+_(\d+)\b", r"IDX_\2", t))  # noqa
            if diff and all(norm(x) == norm(y) for x, y in diff):
                return k["id"]
    return None


def selftests():
    import dagrt.codegen.dag_ast as D
    res = {}
    prog = dict(pg.corpus()[0])
    s, c, paths = check_program(prog, ["python"], 100)
    res["baseline_python_deterministic"] = not c and paths >= 2
    src_orig = D.create_ast_from_phase

    def bad(code, phase_name):
        phase = code.phases[phase_name]
        stack = []
        statement_map = {inst.id: inst for inst in phase.statements}
        visiting, visited, order = set(), set(), []
        stack.extend(phase.depends_on)         # unsorted
        while stack:
            statement = stack[-1]
            if statement in visited:
                if statement in visiting:
                    visiting.remove(statement)
                    order.append(statement)
                stack.pop()
            else:
                visited.add(statement)
                visiting.add(statement)
                stack.extend(statement_map[statement].depends_on)    # unsorted
        block = [D.loop_to_ast_node(statement_map[i]) for i in order if not isinstance(statement_map[i], D.Nop)]
        return D.simplify_ast(D.Block(*block))
    import dagrt.codegen.python as P
    D.create_ast_from_phase = bad
    try:
        prog2 = dict(pg.P1([["assign", "a", pg.ADD(pg.Y, C(1)), []], ["assign", "b", pg.ADD(pg.Z, C(1)), []],
                            ["assign", "<state>y", pg.ADD(V("a"), V("b")), []]]), name="t")
        s, c, paths = check_program(prog2, ["python"], 100)
        res["fault_unsorted_traversal_detected"] = bool(c)
    finally:
        D.create_ast_from_phase = src_orig
    return res


def main(tier, seed):
    run = Run(PID, tier, seed, "other")
    jobs = []
    for p in fortran_corpus():
        jobs.append((p, ["fortran", "python", "interpreter"]))
    small = [p for p in pg.corpus() if pg.count_ops(p) <= 6]
    for p in small:
        jobs.append((p, ["python", "interpreter"]))
    rng = random.Random(seed)
    nrand = 12 if tier == "quick" else 60
    g = pg.ProgGen(rng, max_ops=4, multi_phase=True)
    for i in range(nrand):
        jobs.append((g.program(i), ["python", "interpreter"]))
    max_paths = 150 if tier == "quick" else 400
    for part in pmap("vf.checks.c15", "work", [{"jobs": [j], "max_paths": max_paths} for j in jobs]):
        run.absorb(part)
    # history clause (concrete, in-process)
    for p in fortran_corpus()[:3]:
        for kind in ("python", "fortran"):
            run.stats.obligations += 1
            try:
                diff = history_check(p, kind)
            except Exception as e:  # noqa
                diff = [("exception", "%s: %s" % (type(e).__name__, e))]
            if diff is None:
                run.stats.discharged += 1
            else:
                run.stats.refuted += 1
                run.candidates.append({"clause": "history", "prog": p, "kind": kind, "diff": diff})
    for p in [q for q in fortran_corpus() if any(op[0] == "yield" for ph in q["phases"] for op in pg.walk_ops(ph["ops"]))][:3]:
        run.stats.obligations += 1
        try:
            diff = history_same_dag(p)
        except Exception as e:  # noqa
            diff = [("exception", ["%s: %s" % (type(e).__name__, e)])]
        if not diff:
            run.stats.discharged += 1
        else:
            run.stats.refuted += 1
            run.candidates.append({"clause": "history_same_dag", "prog": p, "kind": "fortran", "diff": diff})
    for p in pg.corpus():
        run.stats.obligations += 1
        try:
            diff = same_dag_twice(p)
        except Exception as e:  # noqa
            diff = []        # generation problems are C01's business
        if not diff:
            run.stats.discharged += 1
        else:
            run.stats.refuted += 1
            run.candidates.append({"clause": "same_dag_twice", "prog": p, "kind": "python", "diff": diff})
    run.bounds = {"programs": len(jobs), "max_order_paths_per_program_kind_universe": max_paths,
                  "universes": ["statements symbolic / names fixed", "names symbolic / statements fixed"],
                  "statements_per_phase": "<= ~8", "hash_seeds_scanned_on_replay": 32}
    run.selftests = selftests()
    if not all(run.selftests.values()):
        run.harness_errors.append("self-test failed: %r" % run.selftests)
    run.assumptions = [
        "iteration orders are those expressible as one global rank per universe (CPython's table layout can order two sets inconsistently: outside the claim)",
        "one universe (statement objects and ids | variable names) is symbolic at a time; interactions between the two are not explored; the statement universe (n! storage orders) is explored for phases of <= 5 statements only",
        "sorted()/natsorted() are read without forking: their result cannot depend on the iteration order of their argument",
        "set displays / comprehensions inside dagrt are not intercepted (7 sites; 5 are only used for membership or sorted; ExecutionPhase.depends_on is re-wrapped in a ranked set by a stub subclass; _ExtendedUnifier's candidate set only picks which valid match comes first)",
        "interpreter trace compared on one fixed concrete input (the order is what is symbolic here); explorations that hit the path budget are counted incomplete",
        "history clauses are concrete: (i) P, then an unrelated Q, then P again with fresh generator objects in one process; (ii) one DAGCode object handed to separate generator objects with different options (instrumentation, state-update hooks) vs. the same generator on a fresh DAGCode; (iii) the same DAGCode object generated three times (text identical, printed method description unchanged)",
    ]
    return run.finish(
        rule="%d programs (Fortran user-type corpus incl. multi-variable self-dependence and shared last uses; small PG corpus; seeded random); each under "
             "2 universes x generators/interpreter; non-trivial = at least 4 order paths" % len(jobs),
        explanation="real generators/interpreter under symbolic set iteration order (ranked containers, z3 ranks, forks where two elements are compared); digest of the output equal on all paths",
        classify=classify, dedup_key=lambda c: (c.get("clause"), c["prog"].get("name"), c.get("kind")))
