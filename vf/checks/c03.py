"""C03 -- the compiled Fortran stepper computes the same states as the
interpreter (translation validation of the emitted text).

For each program of the Fortran-supported part of the family: the REAL Fortran
generator emits a module; fsym parses the text and executes initialize and then
run k times on symbolic REAL inputs (exact arithmetic; guards fork); the REAL
NumpyInterpreter executes the same k steps on the same symbols inside the same
explorer path.  After every run z3 decides equality of every persistent
variable, of the ret_state/ret_time/ret_time_id slots (against the last
StateComputed of that component) and of dagrt_next_phase (decoded through the
emitted parameter table); a Fortran STOP must coincide with an interpreter
Raise.  Side conditions decided by the compiler, not the solver (labelled):
`gfortran -fsyntax-only` on every distinct module, and the fsym-vs-gfortran
conformance run on concrete inputs."""
import random

import z3

from vf import backends, common, fcorpus, fdriver, fsym, pg, symx
from vf.common import Run, pmap, chunks
from vf.symx import Explorer, SymArr, SymNum

PID = "C03"


def field_name(n):
    if n == "<t>":
        return "dagrt_t"
    if n == "<dt>":
        return "dagrt_dt"
    return backends.sanitize(n)


def compare_after_run(prover, st, ir, run_no):
    """st: fsym.Stepper, ir: fcorpus.InterpRunner."""
    pers = ir.persistent()
    for n, v in sorted(pers.items()):
        fn = field_name(n)
        if fn not in st.state.f:
            continue       # the generated module does not mention it (never written)
        fv = st.field(fn)
        if fv is None:
            return "run %d: Fortran %s is undefined, interpreter holds %r" % (run_no, fn, v)
        if fv == "FREED":
            return "run %d: Fortran %s points to freed storage" % (run_no, fn)
        iv = list(v.items) if isinstance(v, SymArr) else (list(v) if type(v).__name__ == "ndarray" else v)
        if differs(prover, fv, iv):
            return "run %d: %s = %r in Fortran, %r in the interpreter" % (run_no, n, fv, iv)
    # next phase
    want = "dagrt_phase_" + ir.it.next_phase
    if want not in st.mod.params:
        return "run %d: no parameter %s in the module" % (run_no, want)
    if prover(symx.sym_eq(st.field("dagrt_next_phase"), st.param(want))) == "refuted":
        return "run %d: dagrt_next_phase = %r, interpreter next_phase = %s (%r)" % (
            run_no, st.field("dagrt_next_phase"), ir.it.next_phase, st.param(want))
    # returned state slots
    for comp, ev in ir.last_yield.items():
        c = backends.sanitize(comp)
        for slot, val in (("ret_time_" + c, ev.t), ("ret_state_" + c, ev.state_component)):
            if slot not in st.state.f:
                return "run %d: no slot %s" % (run_no, slot)
            fv = st.field(slot)
            iv = list(val.items) if isinstance(val, SymArr) else (list(val) if type(val).__name__ == "ndarray" else val)
            if fv is None or fv == "FREED":
                return "run %d: slot %s is %s" % (run_no, slot, fv)
            if differs(prover, fv, iv):
                return "run %d: %s = %r in Fortran, interpreter yielded %r" % (run_no, slot, fv, iv)
        tid = "dagrt_time_" + str(ev.time_id)
        if tid in st.mod.params:
            if prover(symx.sym_eq(st.field("ret_time_id_" + c), st.param(tid))) == "refuted":
                return "run %d: ret_time_id_%s = %r, expected %s" % (run_no, c, st.field("ret_time_id_" + c), tid)
    return None


ROUNDING = {"count": 0}


def differs(prover, fv, iv):
    """Exact equality first; a refuted equality still holds if the two values provably agree up to the relative
    tolerance the concrete replay uses (1e-9): differences of one unit in the last place (constants folded in floating
    point on one side, exactly on the other) are outside the claim."""
    if prover(symx.sym_eq(fv, iv)) != "refuted":
        return False
    close = symx.sym_close(fv, iv)
    if close is not None and prover(close) == "valid":
        ROUNDING["count"] += 1
        return False
    return True


def lockstep(prover, prog, dag, txt, K, inputs, ops):
    t0, dt0, ctx, pvals = inputs()
    st = fsym.Stepper(txt, ops)
    st.initialize(**fcorpus.init_kwargs(prog, t0, dt0, ctx, pvals, st.mod))
    t0, dt0, ctx, pvals = inputs()
    ir = fcorpus.InterpRunner(dag, t0, dt0, ctx, pvals, symbolic=isinstance(ops, fsym.SymOps))
    for run_no in range(1, K + 1):
        fout = "completed"
        try:
            st.run()
        except fsym.Stop:
            fout = "stop"
        except fsym.MemError as e:
            return "run %d: Fortran memory error: %s" % (run_no, e)
        iout = ir.step()
        if iout.startswith("raise:") or fout == "stop":
            if iout.startswith("raise:!"):
                return "INVALID"      # a Python-level error in the interpreter (not a Raise statement)
            if iout.startswith("raise:") != (fout == "stop"):
                return "run %d: Fortran %s, interpreter %s" % (run_no, fout, iout)
            return None
        bad = compare_after_run(prover, st, ir, run_no)
        if bad:
            return bad
    return None


def harness(prog, dag, txt, K):
    def h(ex):
        symx.LITERAL_MODE["mode"] = "real"
        state = {"model": None}

        del symx.REAL_DENOMS[:]

        def prover(c):
            v, m = ex.prove(c)
            if v == "refuted" and symx.REAL_DENOMS and not isinstance(c, bool):
                # z3's x/0 is an arbitrary value: only a refutation with non-zero denominators counts
                ex.stats.obligations -= 1
                ex.stats.refuted -= 1
                v, m = ex.prove(z3.Implies(symx.nonzero_denominators(), c))
            if v == "refuted":
                state["model"] = m
            return v
        try:
            # loop bounds / array sizes from persistent scalars are not used in this corpus
            bad = lockstep(prover, prog, dag, txt, K, lambda: fcorpus.sym_inputs(prog), fsym.SymOps())
        finally:
            symx.LITERAL_MODE["mode"] = "uf"
        if bad is None or bad == "INVALID":
            return None
        m = state["model"] or ex.path_model()
        vals = None
        if m is not None:
            def val(t):
                v = symx.model_value(m, t)
                return float(v) if not isinstance(v, str) else 0.0
            vals = {"t": val(z3.Real("in_t")), "dt": val(z3.Real("in_dt")),
                    "y": [val(z3.Real("in_y[%d]" % k)) for k in range(fcorpus.UT_LEN)]}
            for n in pg.var_roles(prog):
                if n.startswith("<p>"):
                    vals[n] = val(z3.Real("in_" + n))
        return {"prog": prog, "K": K, "problem": bad, "vals": vals}
    return h


def check_program(prog, K, max_paths):
    from vf.symx import Stats
    st = Stats()
    st.obligations += 1
    try:
        dag, txt = fcorpus.generate(prog)
    except Exception as e:  # noqa
        st.refuted += 1
        return st, {"prog": prog, "K": K, "kind": "generate", "problem": "Fortran generation raised %s: %s" % (type(e).__name__, str(e)[:150])}, 0
    def unsupported(e, where):
        # a module gfortran itself rejects is not a limit of fsym but a violation of "the module compiles" (reported by
        # the compiler side check with the compiler's message); only a module that compiles and that fsym cannot
        # handle is a harness error
        g = fdriver.run_gfortran(txt, None, syntax_only=True)
        if g["compile_rc"] != 0:
            return st, None, 0
        raise common.HarnessError("fsym %s %s: %s" % (where, prog.get("name"), e))
    try:
        fsym.Module(txt)
    except fsym.Unsupported as e:
        return unsupported(e, "cannot read the module emitted for")
    st.discharged += 1
    ex = Explorer(timeout_ms=3000, max_paths=max_paths, max_decisions=300, wall_s=40)
    # what runs inside a path here is my own executor of the emitted text (fsym) and term construction, not dagrt: a path
    # that exceeds its CPU budget is undecided, not a hang of the code under test
    ex.timeout_is_undecided = True
    try:
        res = ex.explore(harness(prog, dag, txt, K))
    except fsym.Unsupported as e:
        return unsupported(e, "unsupported construct while executing")
    st.add(ex.stats)
    for trail, r in res:
        if r is not None:
            r["kind"] = "semantic"
            return st, r, ex.stats.paths
    return st, None, ex.stats.paths


def work(item):
    tr = common.FunctionTrace()
    tr.start()
    from vf.symx import Stats
    st = Stats()
    cands, samples = [], []
    n = nontriv = 0
    for prog in item["progs"]:
        s, cand, paths = check_program(prog, item["K"], item["max_paths"])
        st.add(s)
        n += 1
        if paths >= 1:
            nontriv += 1
        if cand is not None:
            cands.append(cand)
        samples.append({"program": prog.get("name"), "paths": paths})
    tr.stop()
    return {"stats": st.as_dict(), "candidates": cands, "evaluations": n, "programs": n,
            "distinct_nontrivial": nontriv, "samples": samples[:2], "functions": sorted(tr.seen),
            "extra": {"equalities_proved_only_up_to_relative_tolerance_1e-9": ROUNDING["count"]}}


def side_checks(progs, do_conformance):
    parts = pmap("vf.checks.c03", "side_one", [{"prog": p, "conf": do_conformance} for p in progs])
    out = {"syntax_checked": 0, "syntax_failures": [], "conformance_programs": 0, "conformance_mismatches": []}
    cands = []
    for o, c in parts:
        for k in out:
            out[k] += o[k]
        cands += c
    return out, cands


def side_one(item):
    """Compiler-decided side conditions (concrete; labelled in the evidence)."""
    progs, do_conformance = [item["prog"]], item["conf"]
    out = {"syntax_checked": 0, "syntax_failures": [], "conformance_programs": 0, "conformance_mismatches": []}
    cands = []
    for prog in progs:
        try:
            dag, txt = fcorpus.generate(prog)
        except Exception:  # noqa
            continue
        g = fdriver.run_gfortran(txt, None, syntax_only=True)
        out["syntax_checked"] += 1
        if g["compile_rc"] != 0:
            out["syntax_failures"].append(prog.get("name"))
            cands.append({"prog": prog, "K": 0, "kind": "compile", "problem": "gfortran rejects the emitted module: %s" % g["compile_err"][-300:]})
            continue
        if not do_conformance:
            continue
        vals = {"t": 0.5, "dt": 0.75, "y": [1.25, -2.0], "<p>s": 1.5}
        mod = fsym.Module(txt)
        t0, dt0, ctx, pv = fcorpus.conc_inputs(prog, vals)
        kw = fcorpus.init_kwargs(prog, t0, dt0, ctx, pv, mod)
        g = fdriver.run_gfortran(txt, fdriver.make_driver("m", mod, kw, 3))
        if g.get("compile_rc"):
            continue
        gr = fdriver.parse_driver_output(g["stdout"])
        try:
            fr, err, leaks = fdriver.fsym_concrete_runs(txt, kw, 3)
        except fsym.Stop:
            fr = None
        out["conformance_programs"] += 1
        if fr is None:
            continue
        for i, (a, b) in enumerate(zip(gr, fr)):
            for k in a:
                if not fdriver.same_value(a[k], b.get(k)):
                    out["conformance_mismatches"].append((prog.get("name"), i, k, a[k], b.get(k)))
    return out, cands


# ---------------------------------------------------------------------------

def replay(d):
    prog = d["prog"]
    try:
        dag, txt = fcorpus.generate(prog)
    except Exception as e:  # noqa
        return {"reproduced": True, "detail": "program %s: Fortran generation raises %s: %s" % (prog.get("name"), type(e).__name__, e)}
    if d.get("kind") == "generate":
        return {"reproduced": False, "detail": "generates on replay"}
    g = fdriver.run_gfortran(txt, None, syntax_only=True)
    if g["compile_rc"] != 0:
        return {"reproduced": True, "compile": True,
                "detail": "program %s: gfortran rejects the emitted module:\n%s" % (prog.get("name"), g["compile_err"][-600:])}
    if d.get("kind") == "compile":
        return {"reproduced": False, "detail": "compiles on replay"}
    mod = fsym.Module(txt)
    rng = random.Random(9)
    cands = [d["vals"]] if d.get("vals") else []
    for _ in range(6):
        cands.append({"t": rng.choice([0.0, 0.5, 4.0]), "dt": rng.choice([0.25, 1.0, 2.0]),
                      "y": [rng.uniform(-2, 2), rng.uniform(-2, 2)], "<p>s": rng.choice([-1.5, 0.0, 1.5, 3.0, 6.0])})
    K = d["K"]
    for vals in cands:
        vals = dict(vals)
        for n in pg.var_roles(prog):
            if n.startswith("<p>") and n not in vals:
                vals[n] = 1.0
        t0, dt0, ctx, pv = fcorpus.conc_inputs(prog, vals)
        kw = fcorpus.init_kwargs(prog, t0, dt0, ctx, pv, mod)
        g = fdriver.run_gfortran(txt, fdriver.make_driver("m", mod, kw, K))
        if g.get("compile_rc"):
            return {"reproduced": True, "detail": "driver/module do not compile: %s" % g["compile_err"][-400:]}
        gr = fdriver.parse_driver_output(g["stdout"])
        # the interpreter on the same concrete inputs
        t0, dt0, ctx, pv = fcorpus.conc_inputs(prog, vals)
        ir = fcorpus.InterpRunner(dag, t0, dt0, ctx, pv, symbolic=False)
        for run_no in range(1, K + 1):
            out = ir.step()
            if out.startswith("raise:"):
                stopped = len(gr) < K or "ErrA" in (g.get("stderr") or "")
                if out.startswith("raise:!"):
                    break
                if not stopped:
                    return {"reproduced": True, "detail": "program %s inputs %s: interpreter raises %s at step %d, Fortran does not stop" % (prog.get("name"), vals, out, run_no)}
                break
            if run_no > len(gr):
                return {"reproduced": True, "detail": "program %s inputs %s: Fortran stopped before run %d (rc=%s, stderr=%s)" % (prog.get("name"), vals, run_no, g.get("rc"), (g.get("stderr") or "")[:200])}
            snap = gr[run_no - 1]
            for n, v in ir.persistent().items():
                fn = field_name(n)
                if fn not in snap:
                    continue
                iv = [float(x) for x in v] if type(v).__name__ == "ndarray" else float(v)
                if not fdriver.same_value(snap[fn], iv, 1e-9):
                    return {"reproduced": True, "detail": "program %s inputs %s: after run %d %s = %s in the compiled Fortran, %s in the interpreter"
                            % (prog.get("name"), vals, run_no, n, snap[fn], iv)}
            want = "dagrt_phase_" + ir.it.next_phase
            if snap.get("dagrt_next_phase") != int(fsym.Machine(mod, fsym.FloatOps()).ev(mod.params[want], {})):
                return {"reproduced": True, "detail": "program %s inputs %s: after run %d next phase %s in Fortran, %s in the interpreter"
                        % (prog.get("name"), vals, run_no, snap.get("dagrt_next_phase"), ir.it.next_phase)}
            for comp, ev in ir.last_yield.items():
                c = backends.sanitize(comp)
                sv = [float(x) for x in ev.state_component] if type(ev.state_component).__name__ == "ndarray" else float(ev.state_component)
                if not fdriver.same_value(snap.get("ret_state_" + c), sv, 1e-9) or not fdriver.same_value(snap.get("ret_time_" + c), float(ev.t), 1e-9):
                    return {"reproduced": True, "detail": "program %s inputs %s: after run %d returned state/time of %s = %s/%s in Fortran, interpreter yielded %s/%s"
                            % (prog.get("name"), vals, run_no, comp, snap.get("ret_state_" + c), snap.get("ret_time_" + c), sv, ev.t)}
    return {"reproduced": False, "detail": "compiled Fortran and interpreter agree on replay inputs"}


def _pure_counter_expr(d, counters):
    k = d[0]
    if k == "v":
        return d[1] in counters
    if k in ("+", "*"):
        return all(_pure_counter_expr(x, counters) for x in d[1:])
    return False


def _has_counter_quotient(prog):
    from vf import exprdsl
    for ph in prog["phases"]:
        for op in pg.walk_ops(ph["ops"]):
            if op[0] != "assign" or not op[3]:
                continue
            counters = {i for i, _, _ in op[3]}
            for e in pg.op_exprs(op):
                for _, sub in exprdsl.subterms(e):
                    if sub[0] == "/" and _pure_counter_expr(sub[1], counters) and _pure_counter_expr(sub[2], counters):
                        return True
    return False


def _without_counter_quotients(prog):
    """The program with every such quotient replaced by a product (so that a
    different defect in the same program is still reported)."""
    import copy

    def rex(d, counters):
        k = d[0]
        if k in ("v", "c"):
            return d
        if k == "/" and _pure_counter_expr(d[1], counters) and _pure_counter_expr(d[2], counters):
            return ["*", d[1], d[2]]
        if k == "cmp":
            return ["cmp", d[1], rex(d[2], counters), rex(d[3], counters)]
        if k == "call":
            return ["call", d[1], [rex(x, counters) for x in d[2]], {n: rex(v, counters) for n, v in (d[3] if len(d) > 3 else {}).items()}]
        return [k] + [rex(x, counters) for x in d[1:]]
    prog = copy.deepcopy(prog)
    for ph in prog["phases"]:
        for op in pg.walk_ops(ph["ops"]):
            if op[0] == "assign" and op[3]:
                counters = {i for i, _, _ in op[3]}
                op[2] = rex(op[2], counters)
    return prog


def _zero_rewrite(e, hits):
    """Replace every product/quotient sub-term that mentions a variable but that pymbolic.flatten (applied by the
    statement constructors) stores as the constant 0 by  v - v  (same value, keeps the operand's shape, untouched by
    flatten).  v: the last variable of the sub-term (user-type / array operands are written last by the generators)."""
    from vf import exprdsl, stmtdsl
    from pymbolic.mapper.flattener import flatten
    k = e[0]
    if k in ("v", "c"):
        return e
    if k in ("*", "/"):
        vs = [s_[1] for _, s_ in exprdsl.subterms(e) if s_[0] == "v"]
        if vs:
            try:
                f = flatten(exprdsl.build(e))
            except Exception:  # noqa
                f = None
            if isinstance(f, (int, float)) and f == 0:
                pref = [v for v in vs if v.startswith("<state>")] or vs
                hits.append(pref[-1])
                return ["+", ["v", pref[-1]], ["*", ["c", -1], ["v", pref[-1]]]]
    if k == "cmp":
        return ["cmp", e[1], _zero_rewrite(e[2], hits), _zero_rewrite(e[3], hits)]
    if k == "call":
        kw = e[3] if len(e) > 3 else {}
        return ["call", e[1], [_zero_rewrite(x, hits) for x in e[2]], {n: _zero_rewrite(v, hits) for n, v in kw.items()}]
    return [k] + [_zero_rewrite(x, hits) if isinstance(x, list) else x for x in e[1:]]


def _without_zero_flattening(prog):
    """(rewritten program, number of rewritten sub-terms)"""
    import copy
    prog = copy.deepcopy(prog)
    hits = []
    for ph in prog["phases"]:
        for op in pg.walk_ops(ph["ops"]):
            if op[0] == "assign":
                op[2] = _zero_rewrite(op[2], hits)
            elif op[0] == "assign_call":
                op[3] = [_zero_rewrite(x, hits) for x in op[3]]
                op[4] = {n: _zero_rewrite(v, hits) for n, v in op[4].items()}
            elif op[0] == "yield":
                op[1] = _zero_rewrite(op[1], hits)
    return prog, len(hits)


def classify(c, r, open_known):
    for k in open_known:
        if k.get("matcher") == "zero_product_loses_shape" and c.get("kind") in ("semantic", "generate", "compile"):
            # (also when the scalar 0 reaches a user-function argument and kind inference rejects the program)
            prog2, nhits = _without_zero_flattening(c["prog"])
            if nhits:
                s, cand, paths = check_program(prog2, c.get("K", 2), 60)
                if cand is None:
                    return k["id"]
        if k.get("matcher") == "integer_counter_quotient" and c.get("kind") == "semantic" and _has_counter_quotient(c["prog"]):
            # re-run with the known-defective quotients replaced: must agree
            s, cand, paths = check_program(_without_counter_quotients(c["prog"]), c.get("K", 2), 60)
            if cand is None:
                return k["id"]
    return None


def selftests():
    res = {}
    prog = [p for p in fcorpus.corpus() if p["name"] == "guard_fail"][0]
    s, cand, paths = check_program(prog, 2, 60)
    res["baseline_guard_fail_agrees"] = cand is None and paths >= 3
    import dagrt.codegen.fortran as Fo
    orig = Fo.CodeGenerator.emit_inst_SwitchPhase

    def bad(self, inst):
        self.emit("dagrt_state%dagrt_next_phase = " + self.phase_name_to_phase_sym(inst.next_phase))
        # no goto 999
    Fo.CodeGenerator.emit_inst_SwitchPhase = bad
    try:
        prog2 = [p for p in fcorpus.corpus() if p["name"] == "two_phases"][0]
        s, cand, paths = check_program(prog2, 3, 60)
        res["fault_switch_without_exit_detected"] = cand is not None
    finally:
        Fo.CodeGenerator.emit_inst_SwitchPhase = orig
    return res


def main(tier, seed):
    run = Run(PID, tier, seed, "translation_validation")
    progs = fcorpus.corpus()
    rng = random.Random(seed)
    nrand = 40 if tier == "quick" else 400
    for i in range(nrand):
        progs.append(fcorpus.random_prog(rng, i))
    K, max_paths = (3, 80) if tier == "quick" else (4, 300)
    # the bounded-exhaustive user-type move / overwrite patterns of C12 (fcorpus.move_patterns), here for their values
    moves = fcorpus.move_patterns(2)[::3] if tier == "quick" else (fcorpus.move_patterns(2) + fcorpus.move_patterns(3)[711::8])
    nmoves = len(moves)
    items = [{"progs": [p], "K": K, "max_paths": max_paths} for p in progs]
    items += [{"progs": c, "K": K, "max_paths": max_paths} for c in chunks(moves, max(len(moves) // 6, 1))]
    for part in pmap("vf.checks.c03", "work", items):
        run.absorb(part)
    side, side_cands = side_checks(progs, do_conformance=True)
    run.candidates.extend(side_cands)
    run.extra.update({"side_" + k: v for k, v in side.items()})
    if side["conformance_mismatches"]:
        run.harness_errors.append("fsym disagrees with gfortran on concrete inputs: %r" % side["conformance_mismatches"][:3])
    run.bounds = {"programs": len(progs), "move_pattern_programs": nmoves, "runs_K": K, "max_paths_per_program": max_paths, "user_type_length": fcorpus.UT_LEN,
                  "inputs": "symbolic reals (exact arithmetic)"}
    run.selftests = selftests()
    if not all(run.selftests.values()):
        run.harness_errors.append("self-test failed: %r" % run.selftests)
    run.assumptions = [
        "fsym (vf/fsym.py) models the emitted Fortran subset; it is validated against gfortran-compiled binaries on concrete inputs in every run (conformance side check); any construct outside the subset is a harness error",
        "exact real arithmetic with the same operation tree on both sides: IEEE rounding differences are outside the claim; sqrt and ** are uninterpreted",
        "outside: LAPACK-backed built-ins (linear_solve, svd, matmul, transpose) and isnan (no NaN in the real-number model)",
        "'the module compiles' is decided by gfortran -fsyntax-only (concrete side check), not by the solver",
        "reads of never-written elements of a fresh <builtin>array are outside the claim",
        "an equality that is refuted exactly but PROVED up to the relative tolerance 1e-9 (the one the concrete replay uses) counts as discharged: "
        "exact rational arithmetic also sees one-ulp differences from constants folded in floating point on one side only; real literals without a d "
        "exponent are single precision (nearest binary32 value), as in Fortran",
        "division by zero is outside the claim: a refuted equality is re-proved under 'every denominator met on the path is non-zero' "
        "(z3's real x/0 is an arbitrary value and says nothing about IEEE inf/nan); IEEE division is exercised by the concrete conformance runs only",
    ]
    return run.finish(
        rule="%d programs of the Fortran-supported subset (real scalars, arrays, user-type vectors of length 2, counted loops, guards, nested conditional "
             "expressions, !=, powers, built-ins norm_2/len/array, one registered user function, several phases with fail/switch/raise); each executed for "
             "K=%d runs on symbolic real inputs; non-trivial = at least one complete path" % (len(progs), K),
        explanation="real Fortran generator -> text -> fsym symbolic execution vs real interpreter in one explorer path; z3 validity per persistent variable / returned slot / next phase after every run",
        classify=classify)
