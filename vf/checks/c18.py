"""C18 -- constant hoisting (collapse_constants) preserves value and hoists
only constants.

Per (expression, free-variable subset): the REAL collapse_constants is run;
z3 decides  value(result[hoisted substituted back]) == value(original)  for all
valuations of the variables and all interpretations of `/`, `**`, subscripts
and function symbols (uninterpreted).  Structural obligations (no hoisted
right-hand side mentions a free variable, each new variable assigned exactly
once, the result mentions no unassigned new variable) are checked with an
independent variable collector."""
import itertools
import random

import z3

from vf import common, exprdsl, refexpr
from vf.common import Run, pmap, chunks
from vf.symx import Explorer

PID = "C18"
VARS = ["a", "b", "c", "d"]


def run_collapse(d, free):
    """Run the real code.  Returns (result_expr, assignments list[(name, expr)])."""
    from pymbolic import var
    from dagrt.expression import collapse_constants
    expr = exprdsl.build(d)
    ctr = itertools.count()
    assigns = []

    def new_var():
        return var("hoist%d" % next(ctr))

    def assign(v, e):
        assigns.append((v, e))

    res = collapse_constants(expr, [var(f) for f in free], assign, new_var)
    return expr, res, assigns


def check_case(ex, d, free):
    try:
        expr, res, assigns = run_collapse(d, free)
    except Exception as e:  # noqa
        ex.stats.obligations += 1
        ex.stats.refuted += 1
        return {"expr": d, "free": free, "kind": "exception", "exc": type(e).__name__}
    # structural
    ex.stats.obligations += 1
    names = [v.name if type(v).__name__ == "Variable" else None for v, _ in assigns]
    problem = None
    if None in names:
        problem = "assignee is not a variable"
    elif len(set(names)) != len(names):
        problem = "new variable assigned twice"
    else:
        for v, e in assigns:
            if refexpr.variables(e) & set(free):
                problem = "hoisted expression mentions a free variable"
        used_new = {n for n in refexpr.variables(res, include_functions=True) if n.startswith("hoist")}
        if not used_new <= set(names):
            problem = "result mentions an unassigned new variable"
    if problem:
        ex.stats.refuted += 1
        return {"expr": d, "free": free, "kind": "structural", "problem": problem}
    ex.stats.discharged += 1
    # semantic
    ctx = refexpr.Ctx()
    try:
        orig_t = refexpr.term(expr, ctx)
        env = dict(ctx.env)
        for v, e in assigns:
            env[v.name] = refexpr.as_num(refexpr.term(e, refexpr.Ctx(env=dict(ctx.env))))
        res_t = refexpr.term(res, refexpr.Ctx(env=env))
    except ValueError as e:
        raise common.HarnessError("RefExpr cannot evaluate %s: %s" % (d, e))
    verdict, model = ex.prove(refexpr.equal_terms(orig_t, res_t))
    if verdict == "valid" or verdict == "unknown":
        return None
    val = {}
    for n, t in ctx.env.items():
        val[n] = model.eval(t, model_completion=True).as_long()
    return {"expr": d, "free": free, "kind": "value", "valuation": val}


def work(item):
    ex = Explorer(timeout_ms=10000)
    tr = common.FunctionTrace()
    tr.start()
    cands, samples = [], []
    nontrivial = 0
    hist = []
    for d, free in item["cases"]:
        c = check_case(ex, d, free)
        if c is not None:
            # the calls this process made before (a collapser that keeps state between calls fails only after them)
            c["history"] = hist[-60:]
            cands.append(c)
        hist.append([d, free])
        if exprdsl.size(d) >= 3:
            nontrivial += 1
        if len(samples) < 2 and exprdsl.size(d) >= 5 and free:
            try:
                _, res, assigns = run_collapse(d, free)
                samples.append({"expr": str(exprdsl.build(d)), "free": free,
                                "result": str(res),
                                "hoisted": ["%s <- %s" % (v, e) for v, e in assigns]})
            except Exception:  # noqa
                pass
    tr.stop()
    return {"stats": ex.stats.as_dict(), "candidates": cands,
            "evaluations": len(item["cases"]), "distinct_nontrivial": nontrivial,
            "samples": samples, "functions": sorted(tr.seen)}


def replay(d):
    r = replay_once(d)
    if r.get("reproduced") or not d.get("history"):
        return r
    # holds in a fresh process: repeat it after the calls that preceded it in the worker
    for hd, hfree in d["history"]:
        try:
            run_collapse(hd, hfree)
        except Exception:  # noqa
            pass
    r2 = replay_once(d)
    if r2.get("reproduced"):
        r2["detail"] = "holds in a fresh process but NOT after %d earlier collapse_constants calls (state kept between calls): %s" % (
            len(d["history"]), r2.get("detail"))
    return r2


def replay_once(d):
    from fractions import Fraction  # noqa
    try:
        expr, res, assigns = run_collapse(d["expr"], d["free"])
    except Exception as e:  # noqa
        return {"reproduced": True, "detail": "collapse_constants raised %s: %s on %s free=%s"
                % (type(e).__name__, e, exprdsl.build(d["expr"]), d["free"])}
    if d["kind"] == "exception":
        return {"reproduced": False, "detail": "no exception on replay"}
    if d["kind"] == "structural":
        names = [v.name for v, _ in assigns]
        bad = len(set(names)) != len(names) or any(
            refexpr.variables(e) & set(d["free"]) for _, e in assigns)
        used_new = {n for n in refexpr.variables(res, True) if n.startswith("hoist")}
        bad = bad or not used_new <= set(names)
        return {"reproduced": bad, "detail": "%s: expr %s free %s -> %s with %s"
                % (d["problem"], expr, d["free"], res, [(str(v), str(e)) for v, e in assigns])}
    rng = random.Random(1)
    vals = [d["valuation"]]
    allv = sorted(refexpr.variables(expr, True) | set(d["valuation"]))
    for _ in range(40):
        vals.append({n: rng.randint(-4, 4) for n in allv})
    for val in vals:
        for fseed in range(3):
            h = refexpr.hash_function(fseed)
            funcs = {"__call__": h, "__subscript__": lambda a, *i: h("sub", [a] + list(i), {})}
            env = {n: val.get(n, 0) for n in allv}
            try:
                a = refexpr.ceval(expr, env, funcs)
                env2 = dict(env)
                for v, e in assigns:
                    env2[v.name] = refexpr.ceval(e, env, funcs)
                b = refexpr.ceval(res, env2, funcs)
            except refexpr.Undefined:
                continue
            except TypeError:
                continue
            if a != b:
                return {"reproduced": True,
                        "detail": "expr %s free %s -> %s with %s; at %s original=%s rewritten=%s"
                        % (expr, d["free"], res, [(str(v), str(e)) for v, e in assigns], env, a, b)}
    return {"reproduced": False, "detail": "values equal on all replay valuations"}


def gen_cases(tier, seed):
    cases = []
    # bounded exhaustive: depth <= 2 over a reduced alphabet
    leaves = [["v", "a"], ["v", "b"], ["c", 2]]
    exprs = list(exprdsl.enumerate_exprs(2, leaves, binops=("+", "*"), funcs=("<func>f",), max_args=1))
    # n-ary sums/products (regrouping is the interesting rewrite)
    for op in ("+", "*"):
        for kids in itertools.product([["v", "a"], ["v", "b"], ["v", "c"], ["c", 2], ["c", 3],
                                       ["call", "<func>f", [["v", "b"]], {}],
                                       ["+", ["v", "b"], ["c", 1]], ["*", ["v", "a"], ["v", "b"]]], repeat=3):
            exprs.append([op] + [k for k in kids])
    # an n-ary sum and an n-ary product in ONE expression that fold the same constants in the same order (a hoisted
    # sub-expression must be identified by its operator as well as its operands)
    consts = [["v", "a"], ["v", "b"], ["c", 2], ["c", 3], ["call", "<func>f", [["v", "a"]], {}]]
    for c1, c2 in itertools.permutations(consts, 2):
        x, y = ["v", "x"], ["v", "y"]
        exprs.append(["+", ["*", c1, c2, x], ["+", c1, c2, y]])
        exprs.append(["*", ["+", c1, c2, y], ["*", c1, c2, x]])
        exprs.append(["+", ["*", c1, c2, x], ["*", ["+", c1, c2, y], ["v", "x"]], ["+", c2, c1, x]])
    n_exh = len(exprs)
    rng = random.Random(seed)
    nrand = 1500 if tier == "quick" else 120000
    g = exprdsl.Gen(rng, vars_num=VARS, consts=(0, 1, 2, -1, 3), funcs=("<func>f", "<func>g"),
                    arrays=("arr",), float_consts=(0.5,),
                    ops=["+", "*", "/", "**", "if", "min", "max", "call", "callkw", "sub", "cmp", "not", "and", "or"])
    for _ in range(nrand):
        exprs.append(g.num(rng.choice([2, 3, 3, 4] if tier == "quick" else [2, 3, 4, 4, 5])))
    for d in exprs:
        vs = sorted(refexpr.variables(exprdsl.build(d)))
        vs = [v for v in vs if not v.startswith("<func>")]
        if len(vs) <= 3:
            subsets = [list(s) for r in range(len(vs) + 1) for s in itertools.combinations(vs, r)]
        else:
            subsets = [[], vs] + [sorted(rng.sample(vs, rng.randint(1, len(vs) - 1))) for _ in range(4)]
        for s in subsets:
            cases.append((d, s))
    return cases, n_exh, nrand


def selftests():
    """In-memory faults of the real code that must be detected."""
    import dagrt.expression as E
    res = {}
    ex = Explorer()
    cases = [(["+", ["v", "a"], ["c", 2], ["v", "b"], ["c", 3]], ["a"]),
             (["+", ["v", "a"], ["c", 2], ["v", "b"], ["c", 3]], ["a", "b"]),
             (["*", ["v", "a"], ["call", "<func>f", [["v", "b"]], {}], ["v", "b"]], ["a"]),
             (["+", ["v", "a"], ["*", ["v", "b"], ["v", "c"]]], ["b"])]
    v, _ = ex.prove(z3.BoolVal(False))
    res["twin_false_is_refuted"] = v == "refuted"
    orig = E._ExpressionCollapsingMapper.map_commut_assoc

    def bad(self, expr, combine_func):
        # treats every child as constant -> hoists free variables
        new_var = self.new_var_func()
        self.assignments[new_var] = expr
        return new_var
    E._ExpressionCollapsingMapper.map_commut_assoc = bad
    try:
        res["fault_hoist_free_vars_detected"] = any(check_case(ex, d, f) is not None for d, f in cases)
    finally:
        E._ExpressionCollapsingMapper.map_commut_assoc = orig

    def bad2(self, expr, combine_func):
        r = orig(self, expr, combine_func)
        # drops the last non-constant child
        if hasattr(r, "children") and len(r.children) > 2:
            return type(r)(r.children[:-1])
        return r
    E._ExpressionCollapsingMapper.map_commut_assoc = bad2
    try:
        res["fault_drop_child_detected"] = any(check_case(ex, d, f) is not None for d, f in cases)
    finally:
        E._ExpressionCollapsingMapper.map_commut_assoc = orig
    return res


def main(tier, seed):
    run = Run(PID, tier, seed, "other")
    cases, n_exh, nrand = gen_cases(tier, seed)
    run.bounds = {"exhaustive_expressions": n_exh, "random_expressions": nrand,
                  "max_depth": 4 if tier == "quick" else 5, "variables": VARS,
                  "free_subsets": "all subsets when <= 3 variables, else 6 sampled"}
    parts = chunks(cases, common.NPROC * 4)
    for part in pmap("vf.checks.c18", "work", [{"cases": p} for p in parts]):
        run.absorb(part)
    run.selftests = selftests()
    if not all(run.selftests.values()):
        run.harness_errors.append("self-test failed: %r" % run.selftests)
    run.assumptions = [
        "function symbols, `/`, `**`, subscripts are pure uninterpreted functions of their arguments (weakest model: equality proved here holds under every interpretation, IEEE included, up to re-association of + and *)",
        "+ and * are exact (mathematical integers); re-association effects of IEEE rounding are outside the claim",
        "new_var_func supplied by the harness returns fresh names hoist0, hoist1, ...",
    ]
    return run.finish(
        rule="expressions: all of depth <= 2 over {a,b,2,+,*,f(.)} and all ternary sums/products over 8 operand shapes "
             "(exhaustive part), plus seeded random expressions over + * / ** if min max calls(kw) subscripts comparisons; "
             "each x subsets of its variables as free variables; non-trivial = expression size >= 3",
        explanation="per case the real collapse_constants is executed and one z3 validity query decides value equality for "
                    "all valuations / function interpretations; 1 structural + 1 semantic obligation per case")
