"""C17 -- a reported expression match is a genuine match.

Per (template, target, free variables, pre-match): the REAL dagrt.expression
.match is run.  If it returns a substitution S: keys(S) must be declared free
variables, S must agree with the pre-match, and z3 decides
    value(template[S]) == value(target)
for all values of the remaining variables and all interpretations of function
symbols (uninterpreted; a binding f -> g maps to the UF of g).  If it raises,
the exception must be the documented ValueError."""
import itertools
import random

import z3

from vf import common, exprdsl, refexpr
from vf.common import Run, pmap, chunks
from vf.symx import Explorer

PID = "C17"


def run_match(case):
    from dagrt.expression import match
    tpl = exprdsl.build(case["template"])
    tgt = exprdsl.build(case["target"])
    kw = {}
    if case.get("free") is not None:
        kw["free_variable_names"] = list(case["free"])
    if case.get("bound") is not None:
        kw["bound_variable_names"] = list(case["bound"])
    if case.get("pre_match") is not None:
        pm = {}
        for k, v in case["pre_match"].items():
            pm[k] = str(exprdsl.build(v)) if case.get("pre_as_str") else exprdsl.build(v)
        kw["pre_match"] = pm
    if case.get("as_str"):
        tpl, tgt = str(tpl), str(tgt)
    import warnings
    with warnings.catch_warnings():
        warnings.simplefilter("ignore")
        return match(tpl, tgt, **kw)


def declared_free(case):
    if case.get("free") is not None:
        return set(case["free"])
    allv = refexpr.variables(exprdsl.build(case["template"]), include_functions=True)
    return allv - set(case.get("bound") or [])


def subst_terms(case, sigma, ctx_target):
    """Terms of template[sigma] and of target under a shared variable
    environment."""
    tgt_t = refexpr.term(exprdsl.build(case["target"]), ctx_target)
    env = dict(ctx_target.env)
    alias = {}
    ctx_rhs = refexpr.Ctx(env=dict(ctx_target.env))
    bound_terms = {}
    for name, val in sigma.items():
        if type(val).__name__ == "Variable":
            alias[name] = val.name
        else:
            alias[name] = None
        bound_terms[name] = refexpr.term(val, ctx_rhs)
    # variables created while evaluating sigma values are shared
    env.update(ctx_rhs.env)
    for name, t in bound_terms.items():
        env[name] = t
    func_alias = {}
    for name in sigma:
        if alias[name] is not None:
            func_alias[name] = alias[name]
        else:
            func_alias[name] = refexpr.as_num(bound_terms[name])
    ctx_tpl = refexpr.Ctx(env=env, func_alias=func_alias)
    tpl_t = refexpr.term(exprdsl.build(case["template"]), ctx_tpl)
    # the target may mention variables first seen in sigma and vice versa: all
    # are plain Int constants named by variable, so they coincide by name.
    return tpl_t, tgt_t, ctx_tpl


class MatchTimeout(BaseException):
    pass


MATCH_BUDGET_S = 10


def _match_alarm(signum, frame):
    raise MatchTimeout()


def check_case(ex, case):
    import signal
    ex.stats.obligations += 1
    old = signal.signal(signal.SIGVTALRM, _match_alarm)      # CPU time
    signal.setitimer(signal.ITIMER_VIRTUAL, MATCH_BUDGET_S)
    try:
        try:
            sigma = run_match(case)
        finally:
            signal.setitimer(signal.ITIMER_VIRTUAL, 0)
            signal.signal(signal.SIGVTALRM, old)
    except MatchTimeout:
        # pymbolic's commutative-associative unifier is exponential in the number of equal factors; a pair on which the
        # real match() does not answer within the budget is outside the bound (counted undecided, never discharged)
        ex.stats.undecided += 1
        return None, "timeout"
    except ValueError:
        ex.stats.discharged += 1
        return None, "nomatch"
    except Exception as e:  # noqa
        ex.stats.refuted += 1
        return {"case": case, "kind": "exception", "exc": type(e).__name__}, "exc"
    free = declared_free(case)
    if not set(sigma) <= free:
        ex.stats.refuted += 1
        return {"case": case, "kind": "keys", "extra": sorted(set(sigma) - free)}, "bad"
    ex.stats.discharged += 1
    ctx = refexpr.Ctx()
    try:
        tpl_t, tgt_t, ctx_tpl = subst_terms(case, sigma, ctx)
    except ValueError as e:
        raise common.HarnessError("RefExpr: %s on %r" % (e, case))
    oblig = [refexpr.equal_terms(tpl_t, tgt_t)]
    if case.get("pre_match"):
        for k, v in case["pre_match"].items():
            if k not in sigma:
                oblig.append(z3.BoolVal(False))
            else:
                c2 = refexpr.Ctx(env=dict(ctx_tpl.env))
                # evaluate both in the plain (unsubstituted) environment
                c3 = refexpr.Ctx()
                oblig.append(refexpr.equal_terms(refexpr.term(sigma[k], c3),
                                                 refexpr.term(exprdsl.build(v), c3)))
    verdict, model = ex.prove(z3.And(*oblig))
    if verdict == "valid":
        return None, "match"
    if verdict == "unknown":
        return None, "undecided"
    val = {}
    for n, t in list(ctx.env.items()) + list(ctx_tpl.env.items()):
        if z3.is_const(t) and t.decl().kind() == z3.Z3_OP_UNINTERPRETED:
            val[n] = model.eval(t, model_completion=True).as_long()
    return {"case": case, "kind": "value", "valuation": val}, "bad"


def work(item):
    ex = Explorer(timeout_ms=5000)
    tr = common.FunctionTrace()
    tr.start()
    cands, samples = [], []
    counts = {"match": 0, "nomatch": 0, "undecided": 0, "bad": 0, "exc": 0, "timeout": 0}
    for case in item["cases"]:
        c, tag = check_case(ex, case)
        counts[tag] += 1
        if c is not None:
            cands.append(c)
        if tag == "match" and len(samples) < 2 and exprdsl.size(case["template"]) >= 4:
            sig = run_match(case)
            samples.append({"template": str(exprdsl.build(case["template"])),
                            "target": str(exprdsl.build(case["target"])),
                            "free": case.get("free"), "pre_match": {k: str(exprdsl.build(v)) for k, v in (case.get("pre_match") or {}).items()},
                            "substitution": {k: str(v) for k, v in sig.items()}})
    tr.stop()
    return {"stats": ex.stats.as_dict(), "candidates": cands,
            "evaluations": len(item["cases"]), "distinct_nontrivial": counts["match"],
            "samples": samples, "functions": sorted(tr.seen),
            "extra": {"outcome_match": counts["match"], "outcome_documented_error": counts["nomatch"],
                      "outcome_undecided": counts["undecided"], "outcome_match_exceeded_wall_budget": counts["timeout"]}}


# ---------------------------------------------------------------------------

def replay(d):
    case = d["case"]
    try:
        sigma = run_match(case)
    except ValueError as e:
        return {"reproduced": False, "detail": "documented ValueError on replay: %s" % e}
    except Exception as e:  # noqa
        return {"reproduced": True, "detail": "match raised %s: %s for template %s target %s free %s pre %s"
                % (type(e).__name__, e, exprdsl.build(case["template"]), exprdsl.build(case["target"]),
                   case.get("free"), case.get("pre_match"))}
    free = declared_free(case)
    descr = "template %s target %s free %s pre_match %s -> %s" % (
        exprdsl.build(case["template"]), exprdsl.build(case["target"]), case.get("free"),
        {k: str(exprdsl.build(v)) for k, v in (case.get("pre_match") or {}).items()},
        {k: str(v) for k, v in sigma.items()})
    if not set(sigma) <= free:
        return {"reproduced": True, "detail": "binds undeclared variables: " + descr}
    tpl = exprdsl.build(case["template"])
    tgt = exprdsl.build(case["target"])
    allv = set(refexpr.variables(tpl, True)) | set(refexpr.variables(tgt, True))
    for v in sigma.values():
        allv |= refexpr.variables(v, True)
    for v in (case.get("pre_match") or {}).values():
        allv |= refexpr.variables(exprdsl.build(v), True)
    allv = sorted(allv)
    rng = random.Random(7)
    vals = [d.get("valuation") or {}]
    for _ in range(60):
        vals.append({n: rng.randint(-4, 4) for n in allv})
    for val in vals:
        for fseed in range(3):
            h = refexpr.hash_function(fseed)

            def mkfuncs(alias):
                def call(fname, args, kw):
                    return h(alias.get(fname, fname), args, kw)
                return {"__call__": call,
                        "__subscript__": lambda a, *i: h("sub", [a] + list(i), {})}
            env = {n: val.get(n, 0) for n in allv}
            try:
                b = refexpr.ceval(tgt, env, mkfuncs({}))
                env2 = dict(env)
                alias = {}
                for k, v in sigma.items():
                    env2[k] = refexpr.ceval(v, env, mkfuncs({})) if type(v).__name__ != "Variable" or v.name in env else 0
                    if type(v).__name__ == "Variable":
                        alias[k] = v.name
                    else:
                        alias[k] = "term:%s" % (env2[k],)
                a = refexpr.ceval(tpl, env2, mkfuncs(alias))
                if a != b:
                    return {"reproduced": True, "detail": descr + "; at %s template[S]=%s target=%s" % (env, a, b)}
                for k, v in (case.get("pre_match") or {}).items():
                    if k not in sigma:
                        return {"reproduced": True, "detail": "pre-match variable not bound: " + descr}
                    if refexpr.ceval(sigma[k], env, mkfuncs({})) != refexpr.ceval(exprdsl.build(v), env, mkfuncs({})):
                        return {"reproduced": True, "detail": "disagrees with pre_match: " + descr}
            except (refexpr.Undefined, TypeError):
                continue
    return {"reproduced": False, "detail": "sound on all replay valuations: " + descr}


# ---------------------------------------------------------------------------
# generation

def dsl_subst(d, sigma):
    k = d[0]
    if k == "v":
        return sigma.get(d[1], d)
    if k == "c":
        return d
    if k == "cmp":
        return ["cmp", d[1], dsl_subst(d[2], sigma), dsl_subst(d[3], sigma)]
    if k == "call":
        fn = d[1]
        if fn in sigma and sigma[fn][0] == "v":
            fn = sigma[fn][1]
        return ["call", fn, [dsl_subst(x, sigma) for x in d[2]],
                [[n, dsl_subst(v, sigma)] for n, v in _kwitems(d)]]
    return [k] + [dsl_subst(x, sigma) for x in d[1:]]


def _kwitems(d):
    kw = d[3] if len(d) > 3 else {}
    return list(kw.items()) if isinstance(kw, dict) else [tuple(x) for x in kw]


def shuffle_comm(d, rng):
    k = d[0]
    if k in ("v", "c"):
        return d
    if k == "call":
        kw = [[n, shuffle_comm(v, rng)] for n, v in _kwitems(d)]
        rng.shuffle(kw)      # keyword order is not significant
        return ["call", d[1], [shuffle_comm(x, rng) for x in d[2]], kw]
    kids = [shuffle_comm(x, rng) for x in d[1:]]
    if k in ("+", "*"):
        rng.shuffle(kids)
    return [k] + kids


def drop_identity(d, sigma, free, rng):
    """Where a binary sum/product has a free variable child, bind it to the
    identity element and drop it from the target (exercises the
    modulo-identity rule)."""
    k = d[0]
    if k in ("v", "c"):
        return d
    if k == "call":
        return ["call", d[1], [drop_identity(x, sigma, free, rng) for x in d[2]],
                [[n, drop_identity(v, sigma, free, rng)] for n, v in _kwitems(d)]]
    if k in ("+", "*") and len(d) == 3 and rng.random() < 0.5:
        for i in (1, 2):
            c = d[i]
            if c[0] == "v" and c[1] in free and c[1] not in sigma:
                sigma[c[1]] = ["c", 0 if k == "+" else 1]
                return drop_identity(d[3 - i], sigma, free, rng)
    return [k] + [drop_identity(x, sigma, free, rng) for x in d[1:]]


TPL_VARS = ["x", "y", "z", "a"]
TGT_VARS = ["p", "q", "a", "b"]


MAX_ARITY = 9


def _max_arity(d):
    """Largest number of operands of a sum/product after flattening (the unifier's cost is exponential in it)."""
    import pymbolic.primitives as p
    from pymbolic.mapper.flattener import flatten
    best = 0
    stack = [flatten(exprdsl.build(d))]
    while stack:
        x = stack.pop()
        if isinstance(x, (p.Sum, p.Product)):
            best = max(best, len(x.children))
            stack.extend(x.children)
        elif isinstance(x, (p.Call, p.CallWithKwargs)):
            stack.extend(x.parameters)
            if isinstance(x, p.CallWithKwargs):
                stack.extend(x.kw_parameters.values())
    return best


def random_case(rng):
    while True:
        case = _random_case(rng)
        if _max_arity(case["target"]) <= MAX_ARITY and _max_arity(case["template"]) <= MAX_ARITY:
            return case


def _random_case(rng):
    gt = exprdsl.Gen(rng, vars_num=TPL_VARS, consts=(0, 1, 2), funcs=("f", "g", "<func>h"),
                     ops=["+", "*", "call", "callkw"], kwnames=("k", "m"))
    gs = exprdsl.Gen(rng, vars_num=TGT_VARS, consts=(0, 1, 2, 3), funcs=("f", "gg"),
                     ops=["+", "*", "call"], kwnames=("k", "m"))
    tpl = gt.num(rng.choice([1, 2, 2, 3]))
    tvars = sorted(refexpr.variables(exprdsl.build(tpl), include_functions=True))
    mode = rng.random()
    case = {"template": tpl}
    if mode < 0.15:
        case["free"] = None
        bound = [v for v in tvars if rng.random() < 0.3]
        case["bound"] = bound
        free = [v for v in tvars if v not in bound]
    else:
        free = [v for v in tvars if rng.random() < 0.6]
        if rng.random() < 0.1:
            free.append("unused")
        case["free"] = free
    r = rng.random()
    if r < 0.75:
        sigma = {}
        tgt = drop_identity(tpl, sigma, set(free), rng) if rng.random() < 0.4 else tpl
        self_bind = rng.random() < 0.25
        for v in free:
            if v in sigma:
                continue
            if v in ("f", "g", "<func>h"):
                sigma[v] = ["v", rng.choice(["f", "gg", "g"])]
            elif self_bind and rng.random() < 0.7:
                # the target spells this part exactly like the template (binding v -> v): sub-terms that are
                # structurally identical on both sides still constrain the free variables inside them
                sigma[v] = ["v", v]
            else:
                sigma[v] = gs.num(rng.choice([0, 0, 1]))
        tgt = dsl_subst(tgt, sigma)
        if not self_bind or rng.random() < 0.5:
            tgt = shuffle_comm(tgt, rng)
        if rng.random() < (0.6 if self_bind else 0.25):
            # near miss: perturb one leaf of the target (for a self-binding: one occurrence of a free variable, so that
            # two occurrences of it disagree)
            subs = [(p, s) for p, s in exprdsl.subterms(tgt) if s[0] in ("v", "c")]
            if self_bind:
                occ = [(p, s) for p, s in subs if s[0] == "v" and s[1] in free and sigma.get(s[1]) == ["v", s[1]]]
                subs = occ or subs
            if subs:
                p, s = rng.choice(subs)
                tgt = exprdsl.replace_at(tgt, p, gs.leaf_num())
        case["target"] = tgt
        if free and rng.random() < 0.3:
            ks = [k for k in free if k in sigma and rng.random() < 0.5]
            if ks:
                pm = {}
                for k in ks:
                    pm[k] = sigma[k] if rng.random() < 0.8 else gs.num(0)
                case["pre_match"] = pm
                case["pre_as_str"] = rng.random() < 0.3
    else:
        case["target"] = gs.num(rng.choice([1, 2]))
    if rng.random() < 0.1 and not _has_special(case):
        case["as_str"] = True
    return case


def _has_special(case):
    s = repr(case)
    return "<" in s or "-" in s


def exhaustive_cases():
    tl = [["v", "x"], ["v", "y"], ["v", "a"], ["c", 1]]
    gl = [["v", "p"], ["v", "a"], ["c", 1], ["c", 0], ["c", 2]]
    tpls = list(exprdsl.enumerate_exprs(1, tl, binops=("+", "*"), funcs=("f",), max_args=2))
    tgts = list(exprdsl.enumerate_exprs(1, gl, binops=("+", "*"), funcs=("f",), max_args=1))
    for t in tpls:
        tv = sorted(refexpr.variables(exprdsl.build(t), include_functions=True) & {"x", "y", "f"})
        subsets = [list(s) for r in range(len(tv) + 1) for s in itertools.combinations(tv, r)]
        for g in tgts:
            for s in subsets:
                yield {"template": t, "target": g, "free": s}


def selftests():
    import dagrt.expression as E
    res = {}
    ex = Explorer()
    v, _ = ex.prove(z3.BoolVal(False))
    res["twin_false_is_refuted"] = v == "refuted"
    cases = [{"template": ["+", ["*", ["v", "c"], ["v", "a"]], ["*", ["v", "b"], ["v", "a"]]],
              "target": ["+", ["*", ["v", "c"], ["v", "a"]], ["v", "a"]], "free": ["b"]},
             {"template": ["*", ["+", ["v", "c"], ["v", "a"]], ["+", ["v", "b"], ["v", "a"]]],
              "target": ["*", ["+", ["v", "c"], ["v", "a"]], ["v", "a"]], "free": ["b"]}]
    ok0 = all(check_case(ex, c)[1] == "match" for c in cases)
    res["baseline_identity_matches_are_sound"] = ok0
    orig_sum = E._ExtendedUnifier.map_sum

    def bad_sum(self, expr, other, urecs):
        from pymbolic.mapper.unifier import UnidirectionalUnifier
        mapper = lambda e, o, u: UnidirectionalUnifier.map_sum(self, e, o, u)  # noqa
        return self.map_modulo_identity(expr, other, urecs, mapper, 1)  # wrong identity
    E._ExtendedUnifier.map_sum = bad_sum
    try:
        res["fault_wrong_identity_detected"] = any(check_case(ex, c)[1] == "bad" for c in cases)
    finally:
        E._ExtendedUnifier.map_sum = orig_sum
    return res


def main(tier, seed):
    run = Run(PID, tier, seed, "other")
    cases = list(exhaustive_cases())
    n_exh = len(cases)
    rng = random.Random(seed)
    nrand = 6000 if tier == "quick" else 400000
    for _ in range(nrand):
        cases.append(random_case(rng))
    run.bounds = {"exhaustive_pairs": n_exh, "random_pairs": nrand, "template_depth": "<= 3",
                  "operators": "sums, products, calls with positional and keyword arguments",
                  "solver_timeout_ms": 5000, "match_wall_budget_s": MATCH_BUDGET_S,
                  "max_operands_of_a_flattened_sum_or_product": MAX_ARITY}
    parts = chunks(cases, common.NPROC * 4)
    for part in pmap("vf.checks.c17", "work", [{"cases": p} for p in parts]):
        run.absorb(part)
    run.selftests = selftests()
    if not all(run.selftests.values()):
        run.harness_errors.append("self-test failed: %r" % run.selftests)
    run.assumptions = [
        "family = sums, products, calls (positional + keyword) as named by the property; quotients/powers are excluded on purpose "
        "(match runs pymbolic.flatten, which rewrites 0/x to 0 -- a dependency artefact outside the stated family)",
        "function symbols are pure uninterpreted functions; a binding f -> g maps f to the UF of g",
        "the property is about reported matches (partial correctness): a pair on which the real match() does not answer within the wall budget "
        "(pymbolic's commutative-associative unifier is exponential in the number of operands) is counted undecided; random pairs are limited to "
        "%d operands per flattened sum/product" % MAX_ARITY,
        "+ and * over mathematical integers; non-linear obligations on which z3 answers unknown are counted as undecided, never as discharged",
    ]
    return run.finish(
        rule="template/target pairs: all depth<=1 templates over {x,y,a,1,+,*,f} x depth<=1 targets over {p,a,0,1,2,+,*,f} x all free subsets "
             "(exhaustive part) plus seeded random pairs built from a random template by substitution, commutative shuffling, identity dropping, "
             "near-miss perturbation, pre-matches (expression or string), free_variable_names=None mode; non-trivial = match() returned a substitution",
        explanation="per pair the real match() runs; one z3 validity query decides value(template[S]) == value(target) (and agreement with pre_match) "
                    "for all valuations and function interpretations; exceptions other than ValueError are violations")
