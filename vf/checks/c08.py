"""C08 -- declared read/write sets cover what a statement really touches.

For every statement shape the REAL NumpyInterpreter.evaluate_condition and
exec_* run on a store whose values are all symbolic (so every branch of a
conditional expression, every short-circuit and every loop trip count is taken
on some path).  The store is a recording dict installed from outside.  On
every path: reads <= get_read_variables() | get_written_variables(), writes <=
get_written_variables() | loop counters; and map_expressions(identity) leaves
both sets unchanged."""
import random

import z3

from vf import common, exprdsl, stmtdsl, symx
from vf.common import Run, pmap, chunks
from vf.symx import Explorer, SymArr

PID = "C08"


class RecDict(dict):
    def __init__(self):
        dict.__init__(self)
        self.reads = set()
        self.writes = set()
        self.on = False

    def __getitem__(self, k):
        if self.on:
            self.reads.add(k)
        return dict.__getitem__(self, k)

    def __setitem__(self, k, v):
        if self.on:
            self.writes.add(k)
        dict.__setitem__(self, k, v)

    def __delitem__(self, k):
        if self.on:
            self.writes.add(k)
        dict.__delitem__(self, k)

    def get(self, k, default=None):
        if self.on and k in self:
            self.reads.add(k)
        return dict.get(self, k, default)


FUNCS = ["<func>f", "<func>g"]


def make_interp(stmt, store, functions):
    import dagrt.language as L
    from dagrt.exec_numpy import NumpyInterpreter
    s = stmt.copy(id="s0", depends_on=frozenset())
    dag = L.DAGCode({"p": L.ExecutionPhase("p", "p", [s])}, "p")
    it = NumpyInterpreter(dag, function_map=functions)
    it.context = store
    it.eval_mapper.context = store
    return it, s


def declared(stmt):
    return set(stmt.get_read_variables()), set(stmt.get_written_variables())


def loop_bound_vars(spec):
    out = set()
    if spec[0] == "assign":
        for i, lo, hi in spec[4]:
            out |= set(stmtdsl.dsl_vars(lo)) | set(stmtdsl.dsl_vars(hi))
    return out


def run_and_judge(spec, store, functions, identity_check=True):
    """Execute on the given (symbolic or concrete) store; return problem or None."""
    stmt = stmtdsl.build_stmt(spec)
    it, s = make_interp(stmt, store, functions)
    rd, wr = declared(s)
    loopvars = {i for i, _, _ in (spec[4] if spec[0] == "assign" else [])}
    if identity_check:
        try:
            m = s.map_expressions(lambda e: e)
            rd2, wr2 = declared(m)
            if rd2 != rd or wr2 != wr:
                return "map_expressions(identity) changes the sets: reads %s -> %s, writes %s -> %s" % (
                    sorted(rd), sorted(rd2), sorted(wr), sorted(wr2))
        except Exception as e:  # noqa
            return "map_expressions(identity) raised %s: %s" % (type(e).__name__, e)
    store.on = True
    exc = None
    try:
        if it.evaluate_condition(s):
            getattr(it, s.exec_method)(s)
    except (symx.Abort, symx.Unmodelled, symx.BudgetExceeded):
        raise
    except Exception as e:  # noqa
        exc = type(e).__name__
    finally:
        store.on = False
    bad_reads = store.reads - rd - wr - set(functions)
    bad_writes = store.writes - wr - loopvars
    if bad_reads:
        return "reads %s not in declared read set %s nor write set %s%s" % (
            sorted(bad_reads), sorted(rd), sorted(wr), " (path ended in %s)" % exc if exc else "")
    if bad_writes:
        return "writes %s not in declared write set %s" % (sorted(bad_writes), sorted(wr))
    return None


def harness(spec):
    def h(ex):
        roles = stmtdsl.spec_var_roles(spec)
        store = RecDict()
        lbv = loop_bound_vars(spec)
        for name, role in sorted(roles.items()):
            if name.startswith("<func>"):
                continue
            v = stmtdsl.make_value(name, role)
            dict.__setitem__(store, name, v)
            if name in lbv and role == "num":
                ex.assume(z3.And(v.t >= 0, v.t <= 2))
        if spec[0] == "call":
            pass
        functions = {f: stmtdsl.uf_function(f) for f in FUNCS}
        functions["<func>h2"] = stmtdsl.uf_function("<func>h2", nres=2)
        ex.stats.obligations += 1
        bad = run_and_judge(spec, store, functions)
        if bad is None:
            ex.stats.discharged += 1
            return None
        ex.stats.refuted += 1
        m = ex.path_model()
        conc = {}
        for name, role in roles.items():
            if name.startswith("<func>"):
                continue
            v = stmtdsl.make_value(name, role)
            conc[name] = symx.concretize(v, m) if m is not None else None
        return {"spec": spec, "problem": bad, "store": conc}
    return h


def work(item):
    tr = common.FunctionTrace()
    tr.start()
    from vf.symx import Stats
    st = Stats()
    cands, samples = [], []
    n = nontriv = 0
    for spec in item["specs"]:
        ex = Explorer(timeout_ms=5000, max_paths=300, max_decisions=60)
        res = ex.explore(harness(spec))
        st.add(ex.stats)
        n += 1
        if ex.stats.paths > 1:
            nontriv += 1
        for trail, r in res:
            if r is not None:
                cands.append(r)
                break
        if len(samples) < 2 and ex.stats.paths >= 3:
            samples.append({"statement": str(stmtdsl.build_stmt(spec)), "paths": ex.stats.paths})
    tr.stop()
    return {"stats": st.as_dict(), "candidates": cands, "evaluations": n,
            "distinct_nontrivial": nontriv, "samples": samples, "functions": sorted(tr.seen)}


# ---------------------------------------------------------------------------

def replay(d):
    import numpy as np
    spec = d["spec"]
    last = None
    for fseed in range(4):
        store = RecDict()
        for name, v in (d.get("store") or {}).items():
            if isinstance(v, list):
                v = np.array([0 if x is None else x for x in v], dtype=object)
            elif v is None:
                v = 0
            dict.__setitem__(store, name, v)
        from vf import refexpr
        h = refexpr.hash_function(fseed)

        def mk(fname, nres=1):
            def f(*a, **k):
                a = [tuple(x) if isinstance(x, np.ndarray) else x for x in a]
                k = {n: (tuple(x) if isinstance(x, np.ndarray) else x) for n, x in k.items()}
                if nres == 1:
                    return h(fname, a, k)
                return tuple(h("%s#%d" % (fname, i), a, k) for i in range(nres))
            return f
        functions = {f: mk(f) for f in FUNCS}
        functions["<func>h2"] = mk("<func>h2", 2)
        bad = run_and_judge(spec, store, functions)
        last = bad
        if bad is not None:
            return {"reproduced": True, "detail": "%s: %s  [store %s]" % (stmtdsl.build_stmt(spec), bad, d.get("store"))}
    return {"reproduced": False, "detail": "no undeclared access on replay (%s)" % last}


def classify(c, r, open_known):
    return None


# ---------------------------------------------------------------------------
# statement shapes

def gen_specs(tier, seed):
    rng = random.Random(seed)
    specs = []
    V = lambda n: ["v", n]  # noqa
    C = lambda c: ["c", c]  # noqa
    # curated: the shapes the property names
    specs += [
        ["assign", "a", None, ["+", V("b"), C(1)], [], True],
        ["assign", "arr", V("j"), C(7), [], True],
        ["assign", "arr", ["+", V("j"), V("k")], V("b"), [], True],
        ["assign", "arr", V("i"), V("i"), [["i", C(0), V("n")]], True],
        ["assign", "arr", V("i"), ["sub", V("v"), V("i")], [["i", V("m"), V("n")]], True],
        ["assign", "arr", ["+", V("i"), V("j")], ["*", V("i"), V("b")], [["i", C(0), V("n")], ["j", C(0), V("m")]], True],
        ["assign", "a", None, ["if", ["cmp", "<", V("b"), V("c")], V("d"), V("e")], [], True],
        ["assign", "a", None, ["if", ["and", ["cmp", "<", V("b"), C(0)], ["cmp", ">", V("c"), C(0)]], V("d"), ["sub", V("v"), V("k")]], [], True],
        ["assign", "a", None, V("b"), [], V("<cond>c")],
        ["assign", "a", None, V("b"), [], ["and", V("<cond>c"), ["not", V("<cond>d")]]],
        ["assign", "a", None, ["call", "<func>f", [V("b")], {"k": V("c")}], [], True],
        ["assign", "a", None, ["call", "<func>f", [["call", "<func>g", [V("b")], {}]], {}], [], True],
        ["assign", "a", None, ["min", V("b"), ["max", V("c"), V("d")]], [], True],
        ["assign", "a", None, ["or", ["cmp", "<", V("b"), C(0)], ["cmp", "<", V("c"), C(0)]], [], True],
        ["call", ["a"], "<func>f", [V("b"), ["+", V("c"), C(1)]], {}, True],
        ["call", ["a"], "<func>f", [V("b")], {"k": V("c"), "m": ["sub", V("v"), V("j")]}, V("<cond>c")],
        ["call", ["a", "b"], "<func>h2", [V("b")], {"k": V("c")}, True],
        ["call", [], "<func>f", [V("b")], {}, True],
        ["yield", ["+", V("<state>y"), V("a")], "y", V("<t>"), "final", True],
        ["yield", V("a"), "y", ["+", V("<t>"), V("<dt>")], "final", V("<cond>c")],
        ["yield", ["sub", V("v"), V("j")], "y", ["if", ["cmp", "<", V("b"), C(0)], V("<t>"), V("c")], "final", True],
        ["assign", "a", None, ["**", V("b"), V("c")], [], True],
        ["assign", "a", None, ["/", V("b"), V("c")], [], True],
        ["assign", "arr", V("i"), V("a"), [["i", V("lo"), ["+", V("lo"), C(2)]]], V("<cond>c")],
        # bounds that name the statement's own / an inner counter (read from the incoming store)
        ["assign", "s", None, ["+", V("s"), C(1)], [["i", C(0), V("j")], ["j", C(0), C(2)]], True],
        ["assign", "s", None, ["+", V("s"), C(1)], [["i", C(0), V("i")]], True],
        ["assign", "arr", C(0), V("a"), [["i", V("j"), C(2)], ["j", C(0), V("i")]], True],
        # attribute lookups (z.real, v.size) in every position an expression can take
        ["assign", "a", None, ["attr:real", V("z")], [], True],
        ["assign", "a", None, ["+", ["attr:imag", V("z")], V("b")], [], ["cmp", "<", ["attr:real", V("q")], C(0)]],
        ["assign", "arr", ["attr:real", V("j")], V("b"), [], True],
        ["assign", "arr", V("i"), V("i"), [["i", C(0), ["attr:size", V("v")]]], True],
        ["call", ["a"], "<func>f", [["attr:real", V("z")]], {"k": ["attr:size", V("v")]}, True],
        ["yield", ["attr:real", V("z")], "y", ["attr:real", V("<t>")], "final", True],
        # two-dimensional subscripts (tuple index) outside the left-hand side
        ["assign", "a", None, ["+", ["sub", V("m"), V("i"), V("j")], C(1)], [], True],
        ["assign", "a", None, V("b"), [], ["cmp", "<", ["sub", V("m"), V("p"), V("q")], C(0)]],
        ["assign", "arr", V("i"), C(0), [["i", C(0), ["sub", V("m"), V("p"), V("q")]]], True],
        ["call", ["a"], "<func>f", [["sub", V("m"), V("i"), V("j")]], {"k": ["sub", V("m"), V("p"), C(0)]}, True],
        ["yield", ["sub", V("m"), V("i"), V("j")], "y", V("<t>"), "final", True],
        # several subscripts on the LEFT-hand side: every index expression is read
        ["assign", "arr", ["tuple", V("row"), V("col")], V("b"), [], True],
        ["assign", "arr", ["tuple", ["+", V("row"), C(1)], V("col"), V("lay")], ["sub", V("v"), V("k")], [], V("<cond>c")],
        ["assign", "arr", ["tuple", V("i"), V("col")], V("i"), [["i", C(0), V("n")]], True],
    ]
    ncur = len(specs)
    nrand = 600 if tier == "quick" else 60000
    g = exprdsl.Gen(rng, vars_num=["a", "b", "c", "d"], vars_bool=["<cond>c", "<cond>d"],
                    consts=(0, 1, 2, -1), funcs=FUNCS, arrays=("v", "w"), kwnames=("k", "m"),
                    ops=["+", "*", "/", "**", "cmp", "not", "and", "or", "if", "min", "max", "call", "callkw", "sub", "attr", "sub2"])
    gi = exprdsl.Gen(rng, vars_num=["j", "k", "i"], consts=(0, 1, 2), funcs=(), ops=["+"])
    for _ in range(nrand):
        depth = rng.choice([1, 2, 2, 3])
        cond = True if rng.random() < 0.6 else g.boolean(rng.choice([0, 1, 2]))
        r = rng.random()
        if r < 0.55:
            idx = None
            loops = []
            name = rng.choice(["a", "x", "<state>y"])
            if rng.random() < 0.5:
                name = rng.choice(["arr", "v"])
                idx = gi.num(rng.choice([0, 1]))
            if rng.random() < 0.45:
                nl = rng.choice([1, 1, 2])
                for li in range(nl):
                    lo = rng.choice([C(0), V("lo"), C(1)])
                    hi = rng.choice([V("n"), C(2), ["+", V("n"), C(1)], V("m"), V("j2"), V("i")])
                    loops.append([["i", "j2"][li], lo, hi])
            specs.append(["assign", name, idx, g.num(depth), loops, cond])
        elif r < 0.8:
            nargs = rng.choice([0, 1, 2])
            kws = {k: g.num(depth - 1) for k in rng.sample(["k", "m"], rng.choice([0, 1, 2]))}
            if rng.random() < 0.2:
                specs.append(["call", ["a", "b"], "<func>h2", [g.num(depth - 1) for _ in range(nargs)], kws, cond])
            else:
                specs.append(["call", [rng.choice(["a", "x"])], rng.choice(FUNCS),
                              [g.num(depth - 1) for _ in range(nargs)], kws, cond])
        else:
            specs.append(["yield", g.num(depth), "y", g.num(rng.choice([0, 1])), "final", cond])
    return specs, ncur, nrand


def selftests():
    import dagrt.language as L
    res = {}
    orig = L.AssignFunctionCall.get_read_variables

    def bad(self):
        result = L.Statement.get_read_variables(self)
        for par in self.parameters:
            result |= L.get_variables(par)
        return result     # ignores kw_parameters
    L.AssignFunctionCall.get_read_variables = bad
    try:
        ex = Explorer()
        r = ex.explore(harness(["call", ["a"], "<func>f", [["v", "b"]], {"k": ["v", "c"]}, True]))
        res["fault_kwargs_ignored_detected"] = any(x is not None for _, x in r)
    finally:
        L.AssignFunctionCall.get_read_variables = orig
    orig2 = L.YieldState.get_read_variables

    def bad2(self):
        return L.Statement.get_read_variables(self) | L.get_variables(self.expression)
    L.YieldState.get_read_variables = bad2
    try:
        ex = Explorer()
        r = ex.explore(harness(["yield", ["v", "a"], "y", ["+", ["v", "<t>"], ["v", "<dt>"]], "final", True]))
        res["fault_yield_time_ignored_detected"] = any(x is not None for _, x in r)
    finally:
        L.YieldState.get_read_variables = orig2
    ex = Explorer()
    r = ex.explore(harness(["assign", "a", None, ["if", ["cmp", "<", ["v", "b"], ["v", "c"]], ["v", "d"], ["v", "e"]], [], True]))
    res["reachability_both_branches"] = len(r) >= 2 and all(x is None for _, x in r)
    return res


def main(tier, seed):
    run = Run(PID, tier, seed, "other")
    specs, ncur, nrand = gen_specs(tier, seed)
    for part in pmap("vf.checks.c08", "work", [{"specs": p} for p in chunks(specs, common.NPROC * 4)]):
        run.absorb(part)
    run.bounds = {"curated_statements": ncur, "random_statements": nrand, "expression_depth": "<= 3",
                  "loops": "<= 2 nested, bounds constants or variables (assumed 0..2)", "array_length": stmtdsl.ARRAY_LEN,
                  "paths_per_statement": "<= 300"}
    run.selftests = selftests()
    if not all(run.selftests.values()):
        run.harness_errors.append("self-test failed: %r" % run.selftests)
    run.assumptions = [
        "the variable store is a recording dict subclass installed on the interpreter and its EvaluationMapper from outside",
        "user functions are pure uninterpreted functions; `/` and `**` uninterpreted",
        "variables used in loop bounds range over 0..2; arrays have length 3; out-of-range indices are explored as IndexError paths",
        "function symbols looked up in the function table are not variable reads",
    ]
    return run.finish(
        rule="statement shapes: %d curated (every kind; subscripts on both sides; loop nests with variable bounds; guards; conditional "
             "expressions; keyword arguments; multi-assignee calls) + %d seeded random; non-trivial = more than one execution path"
             % (ncur, nrand),
        explanation="real evaluate_condition/exec_* executed symbolically over the whole store; one obligation per path (set inclusion on the recorded accesses)",
        classify=classify)
