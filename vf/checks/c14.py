"""C14 -- kind unification is a partial join; kind inference is
order-independent.

Part A (unify): the REAL dagrt.data.unify is run on kinds whose fields are
symbolic: is_real_valued of every Scalar/Array is a SymBool, the identifier of
every UserType a symbolic integer (unbounded -- results hold for all
identifiers, equal or not).  Every `if`/`not` on those fields forks; on every
path z3 decides idempotence, commutativity and associativity
("defined" = returns without raising).  The class of each operand (None + 5
kind classes) is enumerated: 6 singles, 36 pairs, 216 triples.

Part B (inference): the REAL SymbolKindFinder is run on programs whose
statement lists (and phase order) are presented in a symbolic order: a symbolic
rank per statement, sorted by forking comparisons -- every distinguishable
permutation is a path.  The resulting table must be equal on all paths."""
import itertools
import random

import z3

from vf import common, symx
from vf.common import Run, pmap, chunks
from vf.symx import Explorer, SymBool, SymNum

PID = "C14"
CLASSES = ["None", "Boolean", "Integer", "Scalar", "Array", "UserType"]


def mk_kind(cls, tag):
    import dagrt.data as D
    if cls == "None":
        return None
    if cls == "Boolean":
        return D.Boolean()
    if cls == "Integer":
        return D.Integer()
    if cls == "Scalar":
        return D.Scalar(SymBool(z3.Bool("real_" + tag)))
    if cls == "Array":
        return D.Array(SymBool(z3.Bool("real_" + tag)))
    if cls == "UserType":
        return D.UserType(SymNum(z3.Int("ident_" + tag)))
    raise ValueError(cls)


def mk_kind_concrete(cls, tag, val):
    import dagrt.data as D
    if cls == "None":
        return None
    if cls == "Boolean":
        return D.Boolean()
    if cls == "Integer":
        return D.Integer()
    if cls == "Scalar":
        return D.Scalar(bool(val.get("real_" + tag, True)))
    if cls == "Array":
        return D.Array(bool(val.get("real_" + tag, True)))
    if cls == "UserType":
        return D.UserType("id%d" % val.get("ident_" + tag, 0))
    raise ValueError(cls)


def try_unify(a, b):
    from dagrt.data import unify
    try:
        return ("ok", unify(a, b))
    except (symx.Abort, symx.Unmodelled, symx.BudgetExceeded):
        raise
    except Exception as e:  # noqa
        return ("err", type(e).__name__)


def kind_eq(a, b):
    """z3 Bool / bool: kinds equal (class and fields)."""
    if a is None or b is None:
        return a is None and b is None
    if type(a) is not type(b):
        return False
    n = type(a).__name__
    if n in ("Scalar", "Array"):
        return symx.lift_bool(a.is_real_valued) == symx.lift_bool(b.is_real_valued)
    if n == "UserType":
        return symx.sym_eq(a.identifier, b.identifier)
    return True


def same_outcome(ex, r1, r2):
    """Obligation: both defined with equal results, or both undefined."""
    if r1[0] != r2[0]:
        return ex.prove(False)
    if r1[0] == "err":
        return ex.prove(True)
    return ex.prove(kind_eq(r1[1], r2[1]))


def model_vals(model, tags):
    val = {}
    if model is None:
        return val
    for t in tags:
        val["real_" + t] = bool(z3.is_true(model.eval(z3.Bool("real_" + t), model_completion=True)))
        val["ident_" + t] = model.eval(z3.Int("ident_" + t), model_completion=True).as_long()
    return val


def harness_single(cls):
    def h(ex):
        a = mk_kind(cls, "a")
        r = try_unify(a, a)
        if r[0] == "err":
            return None  # idempotent where defined
        v, m = ex.prove(kind_eq(r[1], a))
        if v == "refuted":
            return {"law": "idempotent", "classes": [cls], "vals": model_vals(m, ["a"])}
        return None
    return h


def harness_pair(ca, cb):
    def h(ex):
        a, b = mk_kind(ca, "a"), mk_kind(cb, "b")
        r1 = try_unify(a, b)
        r2 = try_unify(b, a)
        v, m = same_outcome(ex, r1, r2)
        if v == "refuted":
            return {"law": "commutative", "classes": [ca, cb], "vals": model_vals(m, ["a", "b"]),
                    "outcomes": [r1[0] + ":" + (r1[1] if r1[0] == "err" else type(r1[1]).__name__),
                                 r2[0] + ":" + (r2[1] if r2[0] == "err" else type(r2[1]).__name__)]}
        return None
    return h


def harness_triple(ca, cb, cc):
    def h(ex):
        a, b, c = mk_kind(ca, "a"), mk_kind(cb, "b"), mk_kind(cc, "c")
        ab = try_unify(a, b)
        left = try_unify(ab[1], c) if ab[0] == "ok" else ab
        bc = try_unify(b, c)
        right = try_unify(a, bc[1]) if bc[0] == "ok" else bc
        v, m = same_outcome(ex, left, right)
        if v == "refuted":
            return {"law": "associative", "classes": [ca, cb, cc], "vals": model_vals(m, ["a", "b", "c"]),
                    "outcomes": [left[0] + ":" + (left[1] if left[0] == "err" else type(left[1]).__name__),
                                 right[0] + ":" + (right[1] if right[0] == "err" else type(right[1]).__name__)]}
        return None
    return h


def work_unify(item):
    tr = common.FunctionTrace()
    tr.start()
    from vf.symx import Stats
    stats = Stats()
    cands, samples = [], []
    n = 0
    for combo in item["combos"]:
        ex = Explorer(timeout_ms=10000, max_paths=500)
        if len(combo) == 1:
            h = harness_single(*combo)
        elif len(combo) == 2:
            h = harness_pair(*combo)
        else:
            h = harness_triple(*combo)
        res = ex.explore(h)
        stats.add(ex.stats)
        n += 1
        for trail, r in res:
            if r is not None:
                cands.append({"part": "unify", **r})
        if len(samples) < 1 and len(combo) == 3:
            samples.append({"combo": combo, "paths": ex.stats.paths})
    tr.stop()
    return {"stats": stats.as_dict(), "candidates": cands, "evaluations": n,
            "distinct_nontrivial": n, "samples": samples, "functions": sorted(tr.seen)}


# ---------------------------------------------------------------------------
# Part B: inference under symbolic presentation order

# programs as lists of phases; each phase a list of statement specs
#   ["assign", lhs, exprDSL, loops]   | ["call", [assignees], fname, [argDSL], {kw}]
PROGRAMS = [
    # plain scalar/array/user-type mix
    {"name": "mix1", "phases": {"p": [
        ["call", ["<state>y"], "<func>f", [["v", "<t>"], ["v", "<state>y"]], {}],
        ["assign", "a", ["+", ["v", "<state>y"], ["*", ["v", "<dt>"], ["v", "<state>y"]]], []],
        ["assign", "n", ["call", "<builtin>norm_2", [["v", "a"]], {}], []],
        ["assign", "<state>y", ["v", "a"], []],
    ]}},
    # variable assigned from several sources (unification order)
    {"name": "join_scalar_int", "phases": {"p": [
        ["assign", "arr", ["call", "<builtin>array", [["c", 3]], {}], []],
        ["assign", "x", ["v", "i"], [["i", ["c", 0], ["c", 3]]]],
        ["assign", "x", ["v", "<dt>"], []],
        ["assign", "arr", ["v", "x"], []],
    ]}},
    {"name": "join_int_array", "phases": {"p": [
        ["assign", "x", ["v", "i"], [["i", ["c", 0], ["c", 3]]]],
        ["assign", "x", ["call", "<builtin>array", [["c", 3]], {}], []],
        ["assign", "z", ["+", ["v", "x"], ["v", "<dt>"]], []],
    ]}},
    {"name": "two_phases_globals", "phases": {"p": [
        ["call", ["<state>y"], "<func>f", [["v", "<t>"], ["v", "<state>y"]], {}],
        ["assign", "<p>k", ["*", ["v", "<dt>"], ["c", 2]], []],
    ], "q": [
        ["assign", "<p>k", ["v", "j"], [["j", ["c", 0], ["c", 2]]]],
        ["assign", "w", ["*", ["v", "<p>k"], ["v", "<state>y"]], []],
    ]}},
    {"name": "complex_flow", "phases": {"p": [
        ["assign", "c", ["call", "<builtin>dot_product", [["v", "u"], ["v", "u"]], {}], []],
        ["assign", "u", ["call", "<builtin>array", [["c", 2]], {}], []],
        ["assign", "s", ["v", "<dt>"], []],
        ["assign", "s", ["v", "c"], []],
        ["assign", "v", ["*", ["v", "s"], ["v", "u"]], []],
    ]}},
    {"name": "conflict_usertype_array", "phases": {"p": [
        ["call", ["<state>y"], "<func>f", [["v", "<t>"], ["v", "<state>y"]], {}],
        ["assign", "x", ["v", "<state>y"], []],
        ["assign", "x", ["call", "<builtin>array", [["c", 2]], {}], []],
    ]}},
    {"name": "conflict_flag_scalar", "phases": {"p": [
        ["assign", "x", ["cmp", "<", ["v", "<t>"], ["c", 1]], []],
        ["assign", "x", ["v", "<dt>"], []],
        ["assign", "w", ["v", "x"], []],
    ]}},
    # widening (real -> complex, scalar -> array) followed by a dependency chain
    {"name": "widen_complex_chain", "phases": {"p": [
        ["assign", "x", ["c", 1], []],
        ["assign", "x", ["c", "cplx:1j"], []],
        ["assign", "y", ["v", "x"], []],
        ["assign", "z", ["v", "y"], []],
    ]}},
    {"name": "widen_array_chain", "phases": {"p": [
        ["assign", "x", ["v", "<dt>"], []],
        ["assign", "x", ["call", "<builtin>array", [["c", 2]], {}], []],
        ["assign", "y", ["+", ["v", "x"], ["c", 1]], []],
        ["assign", "z", ["*", ["v", "y"], ["c", 2]], []],
        ["assign", "w", ["v", "z"], []],
    ]}},
    {"name": "widen_global_two_phases_chain", "phases": {"p": [
        ["assign", "<p>x", ["c", 1], []],
        ["assign", "y", ["v", "<p>x"], []],
        ["assign", "<p>z", ["v", "y"], []],
    ], "q": [
        ["assign", "<p>x", ["c", "cplx:1j"], []],
        ["assign", "w", ["v", "<p>z"], []],
    ]}},
    # three phases with different locals of different kinds (per-phase tables must not depend on the presentation order)
    {"name": "three_phases_locals", "phases": {"primary": [
        ["call", ["<state>y"], "<func>f", [["v", "<t>"], ["v", "<state>y"]], {}],
        ["assign", "k1", ["*", ["v", "<dt>"], ["v", "<state>y"]], []],
    ], "bootstrap": [
        ["assign", "arr", ["call", "<builtin>array", [["c", 3]], {}], []],
        ["assign", "k1", ["v", "i"], [["i", ["c", 0], ["c", 3]]]],
        ["assign", "<p>n", ["call", "<builtin>norm_2", [["v", "arr"]], {}], []],
    ], "adapt": [
        ["assign", "flag", ["cmp", "<", ["v", "<p>n"], ["c", 1]], []],
        ["assign", "z", ["c", "cplx:1j"], []],
    ]}},
    # a REAL array plus a COMPLEX scalar (either operand first): the sum is a complex array whatever is inferred first
    {"name": "real_array_plus_complex_scalar", "phases": {"p": [
        ["assign", "a", ["call", "<builtin>array", [["c", 3]], {}], []],
        ["assign", "x", ["+", ["v", "a"], ["v", "c"]], []],
        ["assign", "c", ["c", "cplx:2j"], []],
        ["assign", "w", ["+", ["v", "c"], ["v", "a"], ["v", "<dt>"]], []],
        ["assign", "p", ["*", ["v", "a"], ["v", "c"]], []],
    ]}},
    {"name": "chain", "phases": {"p": [
        ["assign", "d", ["+", ["v", "c"], ["c", 1]], []],
        ["assign", "c", ["+", ["v", "b"], ["c", 1]], []],
        ["assign", "b", ["+", ["v", "a"], ["c", 1]], []],
        ["assign", "a", ["v", "<t>"], []],
    ]}},
]


def build_stmt(spec, sid):
    import dagrt.language as L
    from vf import exprdsl
    if spec[0] == "assign":
        loops = [(i, exprdsl.build(lo), exprdsl.build(hi)) for i, lo, hi in spec[3]]
        return L.Assign(assignee=spec[1], assignee_subscript=(), expression=exprdsl.build(spec[2]),
                        loops=loops, id=sid)
    if spec[0] == "call":
        return L.AssignFunctionCall(assignees=tuple(spec[1]), function_id=spec[2],
                                    parameters=tuple(exprdsl.build(a) for a in spec[3]),
                                    kw_parameters={k: exprdsl.build(v) for k, v in spec[4].items()}, id=sid)
    raise ValueError(spec)


def registry():
    from dagrt.function_registry import base_function_registry, register_ode_rhs
    return register_ode_rhs(base_function_registry, "y", identifier="<func>f")


def table_snapshot(tbl):
    def k(kind):
        return (type(kind).__name__,) + tuple(kind.__getinitargs__()) if kind is not None else ("None",)
    snap = {"global": {n: k(v) for n, v in tbl.global_table.items()}}
    for ph, t in tbl.per_phase_table.items():
        snap["phase:" + ph] = {n: k(v) for n, v in t.items()}
    return snap


def symbolic_sort(items, tag):
    """Sort by fresh symbolic distinct ranks using forking comparisons: one
    path per distinguishable order."""
    ex = symx.cur()
    ranks = [z3.Int("rank_%s_%d" % (tag, i)) for i in range(len(items))]
    if len(ranks) > 1:
        ex.assume(z3.Distinct(*ranks))
    out = []
    for i, x in enumerate(items):
        k = 0
        while k < len(out) and ex.branch(ranks[out[k][0]] < ranks[i]):
            k += 1
        out.insert(k, (i, x))
    return [i for i, _ in out], [x for _, x in out]


def infer_with_order(prog, phase_order, stmt_orders, front_end=False):
    """Concrete run of the real SymbolKindFinder with explicit orders; front_end: through the
    public infer_kinds(dag) on a DAGCode whose phases dict is in the presentation order."""
    import contextlib
    import io
    from dagrt.data import SymbolKindFinder
    names = [sorted(prog["phases"])[i] for i in phase_order]
    phases = []
    for n in names:
        stmts = [build_stmt(s, "%s_%d" % (n, j)) for j, s in enumerate(prog["phases"][n])]
        phases.append([stmts[i] for i in stmt_orders[n]])
    buf = io.StringIO()
    import signal

    class _Hang(BaseException):
        pass

    def _alarm(signum, frame):
        raise _Hang()
    old = signal.signal(signal.SIGVTALRM, _alarm)     # CPU time, so that machine load does not matter
    signal.setitimer(signal.ITIMER_VIRTUAL, 5)
    try:
        with contextlib.redirect_stdout(buf):
            try:
                if front_end is True:
                    import dagrt.language as L
                    from dagrt.data import infer_kinds
                    dag = L.DAGCode({n: L.ExecutionPhase(n, next_phase=n, statements=st) for n, st in zip(names, phases)}, names[0])
                    tbl = infer_kinds(dag, registry())
                elif front_end == "iterators":
                    # "a list of iterables" (docstring): one-shot iterators, as the Fortran generator passes them
                    tbl = SymbolKindFinder(registry())(names, [iter(p) for p in phases])
                else:
                    tbl = SymbolKindFinder(registry())(names, phases)
            except _Hang:
                return ("err", "inference does not terminate within 5 s of CPU time", False)
            except Exception as e:  # noqa
                return ("err", type(e).__name__, "trying to derive 'kind'" in buf.getvalue())
    finally:
        signal.setitimer(signal.ITIMER_VIRTUAL, 0)
        signal.signal(signal.SIGVTALRM, old)
    return ("ok", table_snapshot(tbl), "trying to derive 'kind'" in buf.getvalue())


def harness_infer(prog):
    def h(ex):
        pnames = sorted(prog["phases"])
        porder, _ = symbolic_sort(pnames, "ph")
        sorders = {}
        for n in pnames:
            o, _ = symbolic_sort(prog["phases"][n], "st_" + n)
            sorders[n] = o
        # entry point: SymbolKindFinder called directly (as the Fortran generator does) | the infer_kinds(dag) front end
        # (statement lists | one-shot iterators of statements) x (direct call | infer_kinds, only with several phases)
        front = [False, "iterators", True][ex.choice(3 if len(pnames) > 1 else 2, "entry")]
        r = infer_with_order(prog, porder, sorders, front_end=front)
        if "does not terminate" in str(r[1]):
            ex.abort_all = True      # one witness is enough; every further order would cost another 5 s
        return {"phase_order": porder, "stmt_orders": sorders, "front_end": front, "result": r}
    return h


def work_infer(item):
    tr = common.FunctionTrace()
    tr.start()
    from vf.symx import Stats
    stats = Stats()
    cands, samples = [], []
    n = 0
    for prog in item["programs"]:
        ex = Explorer(timeout_ms=10000, max_paths=item.get("max_paths", 2000))
        res = ex.explore(harness_infer(prog))
        stats.add(ex.stats)
        n += 1
        base = res[0][1]
        stats.obligations += 1
        bad = None
        for trail, r in res[1:]:
            if r["result"][:2] != base["result"][:2]:
                bad = r
                break
        if bad is None:
            # an inference that does not terminate (on every order) produces no table at all
            for trail, r in res:
                if "does not terminate" in str(r["result"][1]):
                    bad = r
                    base = {"phase_order": r["phase_order"], "stmt_orders": r["stmt_orders"], "front_end": r.get("front_end", False), "result": ("ok", "a table")}
                    break
        if bad is None:
            stats.discharged += 1
        else:
            stats.refuted += 1
            cands.append({"part": "infer", "program": prog,
                          "order_a": {"phase_order": base["phase_order"], "stmt_orders": base["stmt_orders"], "front_end": base.get("front_end", False)},
                          "order_b": {"phase_order": bad["phase_order"], "stmt_orders": bad["stmt_orders"], "front_end": bad.get("front_end", False)}})
        if len(samples) < 2:
            samples.append({"program": prog["name"], "order_paths": len(res), "result": base["result"][0]})
    tr.stop()
    return {"stats": stats.as_dict(), "candidates": cands, "evaluations": n,
            "distinct_nontrivial": n, "samples": samples, "functions": sorted(tr.seen)}


def random_program(rng, idx):
    """Random small typed program: scalars, ints (loop counters), arrays,
    user type; variables assigned from 1-2 sources."""
    from vf import exprdsl
    stmts = []
    pool = {"<t>": "S", "<dt>": "S"}
    names = ["a", "b", "c", "d", "<p>k", "<state>y"]
    n = rng.randint(3, 5)
    stmts.append(["call", ["<state>y"], "<func>f", [["v", "<t>"], ["v", "<state>y"]], {}])
    pool["<state>y"] = "U"
    for _ in range(n - 1):
        tgt = rng.choice(names[:5])
        r = rng.random()
        srcs = sorted(pool)
        if r < 0.12:
            stmts.append(["assign", tgt, ["call", "<builtin>array", [["c", 2]], {}], []])
            pool[tgt] = "A"
        elif r < 0.2:
            stmts.append(["assign", tgt, ["c", "cplx:1j"], []])
            pool[tgt] = "C"
        elif r < 0.3 and len(pool) > 3:
            stmts.append(["assign", tgt, ["v", rng.choice(srcs)], []])
            pool[tgt] = "?"
        elif r < 0.4:
            stmts.append(["assign", tgt, ["v", "i"], [["i", ["c", 0], ["c", 2]]]])
            pool[tgt] = "I"
        elif r < 0.55:
            stmts.append(["assign", tgt, ["call", "<builtin>norm_2", [["v", rng.choice(srcs)]], {}], []])
            pool[tgt] = "S"
        else:
            a, b = rng.choice(srcs), rng.choice(srcs)
            op = rng.choice(["+", "*"])
            stmts.append(["assign", tgt, [op, ["v", a], ["v", b]], []])
            pool[tgt] = "?"
    if rng.random() < 0.4 and len(stmts) >= 3:
        # the same statements spread over 2-3 phases (names not in sorted presentation order)
        pn = rng.sample(["primary", "bootstrap", "adapt"], rng.choice([2, 3]))
        phases = {n: [] for n in pn}
        phases[pn[0]].append(stmts[0])
        for st in stmts[1:]:
            phases[rng.choice(pn)].append(st)
        return {"name": "rand%d" % idx, "phases": {n: v for n, v in phases.items() if v}}
    return {"name": "rand%d" % idx, "phases": {"p": stmts}}


# ---------------------------------------------------------------------------

def replay(d):
    if d["part"] == "unify":
        import dagrt.data as D
        cls = d["classes"]
        val = d["vals"]
        ks = [mk_kind_concrete(c, t, val) for c, t in zip(cls, "abc")]

        def tu(a, b):
            try:
                return ("ok", D.unify(a, b))
            except Exception as e:  # noqa
                return ("err", type(e).__name__)
        if d["law"] == "idempotent":
            r = tu(ks[0], ks[0])
            bad = r[0] == "ok" and r[1] != ks[0]
            return {"reproduced": bad, "detail": "unify(%r, %r) = %r" % (ks[0], ks[0], r)}
        if d["law"] == "commutative":
            r1, r2 = tu(ks[0], ks[1]), tu(ks[1], ks[0])
            bad = r1[0] != r2[0] or (r1[0] == "ok" and r1[1] != r2[1])
            return {"reproduced": bad, "detail": "unify(%r, %r) -> %r but unify(%r, %r) -> %r"
                    % (ks[0], ks[1], r1, ks[1], ks[0], r2)}
        ab = tu(ks[0], ks[1])
        left = tu(ab[1], ks[2]) if ab[0] == "ok" else ab
        bc = tu(ks[1], ks[2])
        right = tu(ks[0], bc[1]) if bc[0] == "ok" else bc
        bad = left[0] != right[0] or (left[0] == "ok" and left[1] != right[1])
        return {"reproduced": bad, "detail": "unify(unify(%r, %r), %r) -> %r but unify(%r, unify(%r, %r)) -> %r"
                % (ks[0], ks[1], ks[2], left, ks[0], ks[1], ks[2], right)}
    prog = d["program"]
    oa, ob = d["order_a"], d["order_b"]
    ra = infer_with_order(prog, oa["phase_order"], {k: v for k, v in oa["stmt_orders"].items()}, front_end=oa.get("front_end", False))
    rb = infer_with_order(prog, ob["phase_order"], {k: v for k, v in ob["stmt_orders"].items()}, front_end=ob.get("front_end", False))
    hang = "does not terminate" in str(ra[1]) or "does not terminate" in str(rb[1])
    return {"reproduced": ra[:2] != rb[:2] or hang, "unification_failure_printed": bool(ra[2] or rb[2]),
            "detail": "program %s: order %s gives %s; order %s gives %s" % (prog["name"], oa, ra[:2], ob, rb[:2])}


def classify(c, r, open_known):
    for k in open_known:
        if k.get("matcher") == "infer_conflicting_kinds" and c.get("part") == "infer":
            # narrow: the tables differ AND SymbolKindTable.set reported (and
            # ignored) a unification failure for this very program
            if r.get("unification_failure_printed"):
                return k["id"]
    return None


def selftests():
    import dagrt.data as D
    res = {}
    ex = Explorer()
    v, _ = ex.prove(z3.BoolVal(False))
    res["twin_false_is_refuted"] = v == "refuted"
    orig = D.unify

    def bad(a, b):
        if isinstance(a, D.Scalar) and isinstance(b, D.Scalar):
            return D.Scalar(a.is_real_valued)
        return orig(a, b)
    D.unify = bad
    try:
        ex2 = Explorer()
        r = ex2.explore(harness_pair("Scalar", "Scalar"))
        res["fault_scalar_first_wins_detected"] = any(x is not None for _, x in r)
    finally:
        D.unify = orig
    return res


def main(tier, seed):
    run = Run(PID, tier, seed, "other")
    combos = [(c,) for c in CLASSES]
    combos += list(itertools.product(CLASSES, repeat=2))
    combos += list(itertools.product(CLASSES, repeat=3))
    for part in pmap("vf.checks.c14", "work_unify", [{"combos": p} for p in chunks(combos, common.NPROC)]):
        run.absorb(part)
    progs = list(PROGRAMS)
    rng = random.Random(seed)
    nrand = 24 if tier == "quick" else 2500
    for i in range(nrand):
        progs.append(random_program(rng, i))
    for part in pmap("vf.checks.c14", "work_infer",
                     [{"programs": p, "max_paths": 1000 if tier == "quick" else 6000} for p in chunks(progs, common.NPROC * 2)]):
        run.absorb(part)
    run.bounds = {"kind_classes": CLASSES, "singles": 6, "pairs": 36, "triples": 216,
                  "inference_programs": len(progs), "statements_per_phase": "<= 5 (all permutations by symbolic rank)",
                  "phases": "<= 3 (every order), entered directly and through infer_kinds(dag)"}
    run.selftests = selftests()
    if not all(run.selftests.values()):
        run.harness_errors.append("self-test failed: %r" % run.selftests)
    run.assumptions = [
        "'defined' means unify returns without raising (AssertionError counts as undefined)",
        "user-type identifiers are modelled as unbounded symbolic integers; only (in)equality of identifiers is observable to unify",
        "presentation order = order of the statement lists and of the phase list handed to SymbolKindFinder; "
        "hash randomisation reaches inference only through that order (infer_kinds passes phase.statements, a frozenset)",
        "messages printed by SymbolKindTable.set are not part of the table and are ignored",
    ]
    return run.finish(
        rule="unify: every single/pair/triple of operand classes over {None,Boolean,Integer,Scalar,Array,UserType} with symbolic fields "
             "(exhaustive over classes, solver over fields); inference: %d curated + %d seeded random programs, every permutation of each "
             "statement list and phase list via symbolic ranks" % (len(PROGRAMS), nrand),
        explanation="real unify / SymbolKindFinder executed symbolically; one obligation per path (unify laws) or per program (table equal on all order paths)",
        exhaustive=False, classify=classify)
