"""C02 -- recorded dependencies make every admissible schedule equal to
program order.

Let < be the transitive closure of the edges the REAL CodeBuilder recorded.
All linear extensions of a partial order are connected by adjacent
transpositions of incomparable pairs, and program order is one of them, so it
suffices that every incomparable pair (i, j) COMMUTES.

Stage 1 (sound, over-approximate): the REAL evaluate_condition + exec_* of
`i; j` and of `j; i` run on one ARBITRARY store (every variable either
statement mentions holds a fresh symbol); z3 decides whether the resulting
stores / event logs can differ.  unsat for all incomparable pairs => every
schedule of the phase equals program order for every input.
Stage 2 (only for pairs that fail stage 1): two explicit linear extensions
that differ by exactly that transposition are executed from the symbolic
INITIAL state through the real exec_* methods; a model on which events or
final variables differ is replayed concretely.  A stage-1 failure that stage 2
cannot turn into a real counterexample is counted as undecided.

Also checked per phase (concrete graph facts): externally visible statements
are totally ordered and ordered after every earlier write of a persistent
variable; names handed out by the builder are fresh."""
import itertools
import random

import z3

from vf import backends, common, pg, refprog, stmtdsl, symx
from vf.common import Run, pmap, chunks
from vf.symx import Explorer, SymArr

PID = "C02"


def closure(stmts):
    anc = {s.id: set(s.depends_on) for s in stmts}
    changed = True
    while changed:
        changed = False
        for k in anc:
            new = set()
            for d in anc[k]:
                new |= anc.get(d, set())
            if not new <= anc[k]:
                anc[k] |= new
                changed = True
    return anc


def stmt_vars(s):
    """name -> role for every variable a statement mentions (independent walk
    over the statement's expressions via the statement printer-free API)."""
    from vf import exprdsl
    roles = {}

    def add_expr(e, role="num"):
        if e is True or e is False or e is None:
            return
        try:
            d = exprdsl.to_dsl(e)
        except ValueError:
            return
        stmtdsl.dsl_vars(d, None, role, roles)
    n = type(s).__name__
    add_expr(s.condition, "bool")
    if n == "Assign":
        add_expr(s.rhs)
        if s.assignee_subscript:
            roles[s.assignee] = "arr"
            for i in s.assignee_subscript:
                add_expr(i)
        else:
            roles.setdefault(s.assignee, "num")
        for ident, lo, hi in s.loops:
            add_expr(lo)
            add_expr(hi)
        for ident, lo, hi in s.loops:
            roles.pop(ident, None)
    elif n == "AssignFunctionCall":
        for p in s.parameters:
            add_expr(p)
        for p in s.kw_parameters.values():
            add_expr(p)
        for a in s.assignees:
            roles.setdefault(a, "num")
    elif n == "YieldState":
        add_expr(s.expression)
        add_expr(s.time)
    for k in list(roles):
        if k.startswith("<func>") or k.startswith("<builtin>"):
            del roles[k]
    return roles


def loop_bound_names(s):
    out = set()
    if type(s).__name__ == "Assign":
        from vf import exprdsl
        for ident, lo, hi in s.loops:
            for e in (lo, hi):
                try:
                    out |= set(stmtdsl.dsl_vars(exprdsl.to_dsl(e)))
                except ValueError:
                    pass
    return out


class Aborted(Exception):
    pass


def exec_sequence(it, seq, log):
    """Run statements in the given order with the real interpreter methods.
    Returns the terminating cause (None | 'fail' | 'switch:..' | 'raise:..')."""
    from dagrt.exec_numpy import FailStepException, TransitionEvent
    for s in seq:
        try:
            if not it.evaluate_condition(s):
                continue
            r = getattr(it, s.exec_method)(s)
            if r is not None and r[0] is not None:
                log.append(backends.norm_event(r[0]))
        except FailStepException:
            return "fail"
        except TransitionEvent as e:
            return "switch:%s" % e.next_phase
        except (IndexError, ZeroDivisionError, OverflowError):
            # validity predicate: indices stay in range; division by zero /
            # overflow are outside the claim
            raise symx.Abort()
        except (symx.Abort, symx.Unmodelled, symx.BudgetExceeded):
            raise
        except Exception as e:  # noqa
            return "raise:%s" % backends.error_kind(e)
    return None


def fill_store(it, roles, tag, ex, bound_names, ranged=True):
    for name, role in sorted(roles.items()):
        v = stmtdsl.make_value(name, role, tag)
        it.context[name] = v
        if ranged and role == "num" and name in bound_names:
            ex.assume(z3.And(v.t >= 0, v.t <= 2))


def stores_differ(ex, a, b):
    """Returns (verdict, model): 'same' | 'differ' | 'unknown'."""
    (ca, la, ea), (cb, lb, eb) = a, b
    conds = []
    if set(ca) != set(cb) or len(la) != len(lb) or ea != eb:
        return "differ", ex.path_model()
    for k in ca:
        conds.append(symx.sym_eq(ca[k], cb[k]))
    for x, y in zip(la, lb):
        conds.append(symx.sym_eq(x, y))
    c = symx.z3_and(conds)
    v, m = ex.prove(c)
    if v == "valid":
        return "same", None
    if v == "refuted":
        return "differ", m
    return "unknown", None


def stage1_pair(dag, a, b):
    """Explore i;j vs j;i on an arbitrary store.  Returns 'commute' |
    'differ' | 'unknown' and stats."""
    roles = {}
    roles.update(stmt_vars(a))
    for k, r in stmt_vars(b).items():
        if roles.get(k) in (None, "num"):
            roles[k] = r
    bound = loop_bound_names(a) | loop_bound_names(b)
    result = {"v": "commute"}

    def h(ex):
        outs = []
        for order in ((a, b), (b, a)):
            it = backends.make_interpreter(dag, backends.sym_user_functions())
            fill_store(it, roles, "arb_", ex, bound)
            log = []
            end = exec_sequence(it, order, log)
            outs.append((dict(it.context), log, end))
        v, m = stores_differ(ex, outs[0], outs[1])
        if v == "differ":
            result["v"] = "differ"
        elif v == "unknown" and result["v"] == "commute":
            result["v"] = "unknown"
        return v

    ex = Explorer(timeout_ms=2000, max_paths=300, max_decisions=120, wall_s=15)
    ex.explore(h)
    if not ex.complete and result["v"] == "commute":
        result["v"] = "unknown"
    return result["v"], ex.stats


def linear_extensions_for_pair(stmts, anc, a, b):
    """Two linear extensions that differ by the transposition of a and b:
    ancestors of either first (program order), then the pair, then the rest
    (program order)."""
    pre = [s for s in stmts if (s.id in anc[a.id] or s.id in anc[b.id])]
    rest = [s for s in stmts if s not in pre and s is not a and s is not b]
    return pre + [a, b] + rest, pre + [b, a] + rest


def run_order(prog, dag, order, funcs, concrete=None, ex=None, tag="init_"):
    it = backends.make_interpreter(dag, funcs, builtin_stubs=concrete is None)
    t0, dt0, ctx = backends.initial_values(prog, tag=tag, concrete=concrete)
    it.set_up(t_start=t0, dt_start=dt0, context=ctx)
    log = []
    end = exec_sequence(it, order, log)
    return dict(it.context), log, end


def stage2_pair(prog, phase_name, dag, stmts, anc, a, b):
    la, lb = linear_extensions_for_pair(stmts, anc, a, b)
    found = {"cand": None, "unknown": False}

    def h(ex):
        backends.assume_ranges(ex, prog)
        funcs = backends.sym_user_functions()
        oa = run_order(prog, dag, la, funcs, ex=ex)
        ob = run_order(prog, dag, lb, funcs, ex=ex)
        v, m = stores_differ(ex, oa, ob)
        if v == "differ" and found["cand"] is None:
            from vf.checks import c01
            found["cand"] = {"prog": prog, "phase": phase_name, "order_a": [s.id for s in la],
                             "order_b": [s.id for s in lb], "pair": [a.id, b.id],
                             "init": c01.concrete_init(prog, m) if m is not None else None,
                             "ufs": backends.uf_tables_from_model(m) if m is not None else {}}
        if v == "unknown":
            found["unknown"] = True
        return v

    ex = Explorer(timeout_ms=2000, max_paths=200, max_decisions=200, wall_s=20)
    ex.explore(h)
    return found["cand"], ex.stats


def graph_facts(prog, phase_name, cb, handed_out):
    """Concrete clauses.  Returns list of problems."""
    from dagrt.utils import is_state_variable
    problems = []
    stmts = cb.statements
    anc = closure(stmts)
    ext = [s for s in stmts if type(s).__name__ not in ("Assign", "AssignFunctionCall", "AssignImplicit")]
    for x, y in itertools.combinations(ext, 2):
        if x.id not in anc[y.id]:
            problems.append("externally visible statements %s and %s are not ordered" % (x.id, y.id))
    for k, s in enumerate(stmts):
        if s in ext:
            for e in stmts[:k]:
                if any(is_state_variable(v) for v in e.get_written_variables()) and e.id not in anc[s.id]:
                    problems.append("%s (%s) is not ordered after the earlier state update %s" % (s.id, type(s).__name__, e.id))
    # fresh names
    user = set()
    ph = [p for p in prog["phases"] if p["name"] == phase_name][0]
    for op in pg.walk_ops(ph["ops"]):
        for e in pg.op_exprs(op):
            user |= set(stmtdsl.dsl_vars(e))
        if op[0] == "assign":
            user.add(op[1] if isinstance(op[1], str) else op[1][1])
            for i, lo, hi in op[3]:
                user.add(i)
        if op[0] == "assign_call":
            user |= set(op[1])
    if len(set(handed_out)) != len(handed_out):
        problems.append("builder handed out a name twice: %s" % handed_out)
    clash = set(handed_out) & user
    if clash:
        problems.append("builder handed out names that the user program uses: %s" % sorted(clash))
    return problems


def build_instrumented(prog):
    """Build with the real CodeBuilder, recording the names it hands out."""
    import dagrt.language as L
    handed = {}
    orig = L.CodeBuilder.fresh_var_name

    def rec(self, prefix="temp"):
        n = orig(self, prefix)
        handed.setdefault(self.name, []).append(n)
        return n
    L.CodeBuilder.fresh_var_name = rec
    try:
        dag, builders = pg.build_dag(prog)
    finally:
        L.CodeBuilder.fresh_var_name = orig
    return dag, builders, handed


def check_program(prog, do_stage2=True):
    from vf.symx import Stats
    st = Stats()
    cands = []
    info = {"pairs": 0, "stage1_fail": 0}
    try:
        dag, builders, handed = build_instrumented(prog)
    except Exception as e:  # noqa
        return st, [], info   # building problems are C01's business
    for pname, cb in builders.items():
        st.obligations += 1
        probs = graph_facts(prog, pname, cb, handed.get(pname, []))
        if probs:
            st.refuted += 1
            cands.append({"prog": prog, "phase": pname, "graph_problem": probs[0]})
        else:
            st.discharged += 1
        stmts = cb.statements
        anc = closure(stmts)
        for a, b in itertools.combinations(stmts, 2):
            if a.id in anc[b.id] or b.id in anc[a.id]:
                continue
            info["pairs"] += 1
            st.obligations += 1
            v, s1 = stage1_pair(dag, a, b)
            s1.obligations = s1.discharged = s1.refuted = s1.undecided = 0
            st.add(s1)
            if v == "commute":
                st.discharged += 1
                continue
            info["stage1_fail"] += 1
            cand = None
            if do_stage2:
                cand, s2 = stage2_pair(prog, pname, dag, stmts, anc, a, b)
                s2.obligations = s2.discharged = s2.refuted = s2.undecided = 0
                st.add(s2)
            if cand is not None:
                st.refuted += 1
                cands.append(cand)
            else:
                st.undecided += 1
    return st, cands, info


def work(item):
    tr = common.FunctionTrace()
    tr.start()
    from vf.symx import Stats
    st = Stats()
    cands, samples = [], []
    n = nontriv = pairs = s1f = 0
    for prog in item["progs"]:
        s, c, info = check_program(prog)
        st.add(s)
        n += 1
        pairs += info["pairs"]
        s1f += info["stage1_fail"]
        if info["pairs"]:
            nontriv += 1
        cands.extend(c[:1])
        if len(samples) < 1 and info["pairs"] >= 3:
            samples.append({"program": prog.get("name"), "incomparable_pairs": info["pairs"]})
    tr.stop()
    return {"stats": st.as_dict(), "candidates": cands, "evaluations": n, "programs": n,
            "distinct_nontrivial": nontriv, "samples": samples, "functions": sorted(tr.seen),
            "extra": {"incomparable_pairs": pairs, "stage1_failures": s1f}}


# ---------------------------------------------------------------------------
# histories of name hand-outs (the last clause of the property)

NAME_ACTIONS = (
    [("fresh", p) for p in ("k", "k_0", "k_1", "k_0_0", "<cond>", "<cond>_0", "temp")]
    + [("use", n) for n in ("k", "k_0", "k_1", "<cond>", "<cond>_0", "temp_0")]
    + [("if", None)])


def run_name_history(hist):
    """Carry out a history of builder calls on the REAL CodeBuilder.  Returns a
    problem string or None.  A handed-out name must differ from every name handed
    out before (used or not) and from every name an earlier statement mentions."""
    import dagrt.language as L
    handed = []
    orig = L.CodeBuilder.fresh_var_name

    def rec(self, prefix="temp"):
        n = orig(self, prefix)
        handed.append(n)
        return n
    L.CodeBuilder.fresh_var_name = rec
    try:
        cb = L.CodeBuilder("p")
        cb.__enter__()
        user = set()
        for k, (kind, arg) in enumerate(hist):
            before = len(handed)
            earlier_handed = list(handed)
            earlier_user = set(user)
            if kind == "fresh":
                cb.fresh_var_name(arg)
            elif kind == "use":
                cb.assign(arg, 1)
                user.add(arg)
            else:
                with cb.if_("<state>y", "<", 0):
                    cb.assign("q", 1)
                user |= {"<state>y", "q"}
            for n in handed[before:]:
                if n in earlier_handed:
                    return "call %d (%s %s): the builder handed out %r, which it had handed out before (%s)" % (k, kind, arg, n, earlier_handed)
                if n in earlier_user:
                    return "call %d (%s %s): the builder handed out %r, which an earlier statement of the user uses" % (k, kind, arg, n)
        cb.__exit__(None, None, None)
    finally:
        L.CodeBuilder.fresh_var_name = orig
    return None


def work_names(item):
    tr = common.FunctionTrace()
    tr.start()
    L_, first = item["L"], item["first"]

    def h(ex):
        hist = [NAME_ACTIONS[first]]
        for _ in range(L_ - 1):
            hist.append(NAME_ACTIONS[ex.choice(len(NAME_ACTIONS), "act")])
        ex.stats.obligations += 1
        bad = run_name_history(hist)
        if bad is None:
            ex.stats.discharged += 1
            return None
        ex.stats.refuted += 1
        return {"names_history": [list(a) for a in hist], "problem": bad}
    ex = Explorer(timeout_ms=2000, max_paths=200000, max_decisions=200)
    res = ex.explore(h)
    tr.stop()
    cands = [r for _, r in res if r is not None]
    return {"stats": ex.stats.as_dict(), "candidates": cands[:2], "evaluations": ex.stats.paths, "programs": 0,
            "distinct_nontrivial": ex.stats.paths, "samples": [], "functions": sorted(tr.seen),
            "extra": {"name_histories": ex.stats.paths}}


def replay(d):
    if "names_history" in d:
        bad = run_name_history([tuple(a) for a in d["names_history"]])
        return {"reproduced": bad is not None, "detail": "builder calls %s: %s" % (d["names_history"], bad)}
    prog = d["prog"]
    dag, builders, handed = build_instrumented(prog)
    if "graph_problem" in d:
        probs = graph_facts(prog, d["phase"], builders[d["phase"]], handed.get(d["phase"], []))
        return {"reproduced": bool(probs), "detail": "program %s phase %s: %s" % (prog.get("name"), d["phase"], probs[:2])}
    cb = builders[d["phase"]]
    by_id = {s.id: s for s in cb.statements}
    la = [by_id[i] for i in d["order_a"]]
    lb = [by_id[i] for i in d["order_b"]]
    # both orders must be admissible (respect the recorded edges)
    for order in (la, lb):
        seen = set()
        for s in order:
            if not set(s.depends_on) <= seen:
                return {"reproduced": False, "detail": "order is not admissible"}
            seen.add(s.id)
    from vf.checks import c01  # noqa
    inits = [d["init"]] if d.get("init") else []
    rng = random.Random(11)
    roles = pg.var_roles(prog)
    for _ in range(12):
        ctx = {}
        for name, role in roles.items():
            if name.startswith("<state>"):
                key = name[7:]
                ctx[key] = [rng.randint(-3, 3) for _ in range(3)] if role == "arr" else (
                    rng.randint(0, 3) if name == "<state>n" else rng.randint(-4, 6))
        inits.append({"t0": rng.randint(0, 2), "dt0": rng.randint(1, 2), "t_end": 3, "context": ctx})
    funcs = backends.concrete_user_functions(d.get("ufs") or {})
    for init in inits:
        outs = []
        for order in (la, lb, cb.statements):
            try:
                ctxt, log, end = run_order(prog, dag, order, funcs, concrete=init)
            except symx.Abort:
                outs = None
                break
            persistent_and_temps = {k: (list(v) if type(v).__name__ == "ndarray" else v) for k, v in ctxt.items()}
            outs.append((persistent_and_temps, log, end))
        if outs is None:
            continue
        if not (_same(outs[0], outs[2]) and _same(outs[1], outs[2])):
            return {"reproduced": True,
                    "detail": "program %s phase %s: schedules %s and %s (both respect the recorded edges) vs program order, init %s: %s | %s | %s"
                    % (prog.get("name"), d["phase"], d["order_a"], d["order_b"], init, outs[0], outs[1], outs[2])}
    return {"reproduced": False, "detail": "all schedules agree on replay"}


def _same(x, y):
    return x[1] == y[1] and x[2] == y[2] and set(x[0]) == set(y[0]) and all(
        symx.sym_eq(x[0][k], y[0][k]) is True or x[0][k] == y[0][k] for k in x[0])


def classify(c, r, open_known):
    return None


def selftests():
    import dagrt.language as L
    res = {}
    prog = [p for p in pg.corpus() if p["name"] == "write_ordering"][0]
    s, c, info = check_program(prog)
    res["baseline_write_ordering_ok"] = not c
    res["name_history_baseline_ok"] = run_name_history([("fresh", "k"), ("fresh", "k"), ("fresh", "k_0"), ("use", "k_1"), ("fresh", "k")]) is None
    orig = L.CodeBuilder._add_statement

    def bad_add(self, stmt):
        # drops the write-after-read edges
        saved = self._reader_map
        self._reader_map = {}
        try:
            orig(self, stmt)
        finally:
            new = self._reader_map
            self._reader_map = saved
            for k, v in new.items():
                self._reader_map.setdefault(k, set()).update(v)
    L.CodeBuilder._add_statement = bad_add
    try:
        s, c, info = check_program(prog)
        res["fault_no_war_edges_detected"] = bool(c)
    finally:
        L.CodeBuilder._add_statement = orig
    return res


def main(tier, seed):
    run = Run(PID, tier, seed, "other")
    progs = pg.corpus()
    ncur = len(progs)
    small = pg.small_programs()
    rng = random.Random(seed)
    if tier == "quick":
        nrand = 250
        small = small[::3]
    else:
        nrand = 3000
    progs += small
    g = pg.ProgGen(rng, max_ops=8 if tier == "quick" else 12, lookups=True, bare_conditions=True)
    for i in range(nrand):
        progs.append(g.program(i))
    for part in pmap("vf.checks.c02", "work", [{"progs": p} for p in chunks(progs, common.NPROC * 6)]):
        run.absorb(part)
    LN = 3 if tier == "quick" else 5
    for part in pmap("vf.checks.c02", "work_names", [{"L": LN, "first": k} for k in range(len(NAME_ACTIONS))]):
        run.absorb(part)
    run.bounds = {"name_histories": "all sequences of %d builder calls over %d actions (fresh_var_name with 7 prefixes, a user assignment to one of 6 "
                                    "generated-looking names, an if_ block), forked by the solver" % (LN, len(NAME_ACTIONS)),
                  "curated_programs": ncur, "small_exhaustive_programs": len(small), "random_programs": nrand,
                  "statements_per_phase": "<= ~20", "stage1_paths_per_pair": 300, "stage2_paths_per_pair": 200,
                  "loop_bound_and_index_variables_range": "0..2 on the arbitrary store"}
    run.selftests = selftests()
    if not all(run.selftests.values()):
        run.harness_errors.append("self-test failed: %r" % run.selftests)
    run.assumptions = [
        "transposition argument: all linear extensions of the recorded partial order are connected by adjacent swaps of incomparable pairs; program order is a linear extension (edges always point backwards)",
        "user functions are pure (uninterpreted); array indices stay in range (IndexError paths are outside the validity predicate)",
        "loop counter names are not used as ordinary variables",
        "names a user program introduces AFTER the builder handed out a fresh name are the user's responsibility (the builder cannot foresee them); the corpus uses generated-looking names only before the hand-out",
        "stage-1 failures that stage 2 cannot reproduce from the initial state are counted undecided (never discharged)",
    ]
    return run.finish(
        rule="builder output of every phase of the PG programs (%d curated + %d small + %d random); every pair of statements not ordered by the "
             "transitive closure of the recorded edges is an obligation; non-trivial = program has at least one incomparable pair" % (ncur, len(small), nrand),
        explanation="per incomparable pair: real evaluate_condition/exec_* of i;j and j;i on an arbitrary symbolic store, z3 decides equality of "
                    "stores and event logs; graph facts (visible statements ordered, fresh names) per phase",
        classify=classify)
