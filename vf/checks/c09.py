"""C09 -- inferred kinds agree with the values computed at run time.

Real infer_kinds / SymbolKindFinder run concretely per program; then the REAL
NumpyInterpreter runs the program on TypedSym values: an integer value term
(so that guards fork) plus a SYMBOLIC TYPE TAG (z3 Int over {bool, int, real,
complex, real array, complex array, bool array, user(id)}).  Arithmetic on
TypedSym computes the result tag by Python/NumPy promotion rules as z3 terms.
The types of the inputs and of user-function results are constrained only to
conform to the inferred / declared kinds.  At every store into the variable
store z3 decides  pc => conforms(tag(value), kind(name)).  Every assigned
variable must have a kind.  The declared result kinds of the built-ins are
compared with what the real implementations return on concrete arguments of
every kind (concrete side check: NumPy kernels are C code)."""
import random

import z3

from vf import common, exprdsl, pg, stmtdsl, symx
from vf.common import Run, pmap, chunks
from vf.symx import Explorer, SymBool, SymNum

PID = "C09"
BOOL, INT, REAL, CPLX, ARR_R, ARR_C, ARR_B = 0, 1, 2, 3, 4, 5, 7
USER0 = 10
USER_IDS = {"u": 10, "w": 11}


def zmax(a, b):
    return z3.If(a >= b, a, b)


def promote(a, b, div=False):
    """Result tag of a (+,-,*) b  (or a / b when div) by Python/NumPy rules."""
    is_arr = lambda t: z3.Or(t == ARR_R, t == ARR_C, t == ARR_B)  # noqa
    is_user = lambda t: t >= USER0  # noqa
    is_cplx = lambda t: z3.Or(t == CPLX, t == ARR_C)  # noqa
    scal = zmax(zmax(a, b), INT)
    if div:
        scal = zmax(scal, REAL)
    arr = z3.If(z3.Or(is_cplx(a), is_cplx(b)), ARR_C, ARR_R)
    return z3.If(is_user(a), a, z3.If(is_user(b), b, z3.If(z3.Or(is_arr(a), is_arr(b)), arr, scal)))


def tag_of(x):
    import numpy as np
    if isinstance(x, TypedSym):
        return x.tag
    if isinstance(x, (bool, np.bool_, SymBool)):
        return z3.IntVal(BOOL)
    if isinstance(x, (int, np.integer)):
        return z3.IntVal(INT)
    if isinstance(x, (float, np.floating)):
        return z3.IntVal(REAL)
    if isinstance(x, (complex, np.complexfloating)):
        return z3.IntVal(CPLX)
    if isinstance(x, SymNum):
        return z3.IntVal(INT)
    raise symx.Unmodelled("tag of %r" % (x,))


def val_of(x):
    if isinstance(x, TypedSym):
        return x.val
    if isinstance(x, complex):
        return SymNum(z3.Int("lit_" + repr(x)))
    return x


class TypedSym:
    """value (SymNum | SymBool | number) + symbolic type tag."""
    __slots__ = ("val", "tag")
    __hash__ = None
    __array_ufunc__ = None

    def __init__(self, val, tag):
        self.val = val
        self.tag = tag if not isinstance(tag, int) else z3.IntVal(tag)

    def __repr__(self):
        return "TypedSym(%r : %s)" % (self.val, z3.simplify(self.tag))

    def _num(self):
        v = self.val
        if isinstance(v, SymBool):
            return v._num()
        if isinstance(v, bool):
            return int(v)
        return v

    def _bin(self, o, op, div=False, swap=False):
        a, b = self._num(), val_of(o)
        if isinstance(b, (TypedSym,)):
            b = b._num()
        if isinstance(b, SymBool):
            b = b._num()
        ta, tb = self.tag, tag_of(o)
        if swap:
            a, b, ta, tb = b, a, tb, ta
        if not isinstance(a, SymNum):
            a = SymNum(symx.lift(a))
        return TypedSym(op(a, b), promote(ta, tb, div))

    def __add__(self, o): return self._bin(o, lambda a, b: a + b)
    def __radd__(self, o): return self._bin(o, lambda a, b: a + b, swap=True)
    def __sub__(self, o): return self._bin(o, lambda a, b: a - b)
    def __rsub__(self, o): return self._bin(o, lambda a, b: a - b, swap=True)
    def __mul__(self, o): return self._bin(o, lambda a, b: a * b)
    def __rmul__(self, o): return self._bin(o, lambda a, b: a * b, swap=True)
    def __truediv__(self, o): return self._bin(o, lambda a, b: a / b, div=True)
    def __rtruediv__(self, o): return self._bin(o, lambda a, b: a / b, div=True, swap=True)
    def __pow__(self, o): return self._bin(o, lambda a, b: a ** b)
    def __rpow__(self, o): return self._bin(o, lambda a, b: a ** b, swap=True)
    def __neg__(self): return TypedSym(-self._num(), zmax(self.tag, INT))
    def __abs__(self): return TypedSym(abs(self._num()), z3.If(self.tag == CPLX, REAL, zmax(self.tag, INT)))

    def _cmp(self, o, op, ordering=False):
        if ordering:
            # Python: complex numbers have no ordering
            ex = symx.cur()
            if ex.branch(z3.Or(self.tag == CPLX, tag_of(o) == CPLX)):
                raise TypeError("'<' not supported between instances of 'complex' and ...")
        b = val_of(o)
        if isinstance(b, SymBool):
            b = b._num()
        return TypedSym(op(self._num(), b), BOOL)

    def __lt__(self, o): return self._cmp(o, lambda a, b: a < b, ordering=True)
    def __le__(self, o): return self._cmp(o, lambda a, b: a <= b, ordering=True)
    def __gt__(self, o): return self._cmp(o, lambda a, b: a > b, ordering=True)
    def __ge__(self, o): return self._cmp(o, lambda a, b: a >= b, ordering=True)
    def __eq__(self, o): return self._cmp(o, lambda a, b: a == b)
    def __ne__(self, o): return self._cmp(o, lambda a, b: a != b)

    def __bool__(self):
        return bool(self.val)

    def __index__(self):
        return symx.realize_int(self._num())

    def __getitem__(self, i):
        # subscript of an array-tagged value: element kind follows the array
        if isinstance(i, tuple):
            (i,) = i
        iv = val_of(i)
        if isinstance(iv, TypedSym):
            iv = iv._num()
        elem = SymNum(symx.uf_apply("select", [self._num(), iv]))
        return TypedSym(elem, z3.If(self.tag == ARR_C, CPLX, z3.If(self.tag == ARR_B, BOOL, REAL)))

    def __setitem__(self, i, v):
        # element store: does not change the array's type (NumPy casts or raises)
        return None


def kind_conforms(tag, kind):
    """z3 Bool: a value with this tag is of this kind."""
    n = type(kind).__name__
    if n == "Boolean":
        return tag == BOOL
    if n == "Integer":
        return tag == INT
    if n == "Scalar":
        if kind.is_real_valued:
            return z3.Or(tag == INT, tag == REAL)
        return z3.Or(tag == INT, tag == REAL, tag == CPLX)
    if n == "Array":
        if kind.is_real_valued:
            return tag == ARR_R
        return z3.Or(tag == ARR_R, tag == ARR_C)
    if n == "UserType":
        return tag == USER_IDS.get(kind.identifier, 99)
    return z3.BoolVal(False)


def registry():
    from dagrt.function_registry import base_function_registry, register_ode_rhs, register_function
    from dagrt.data import Scalar, UserType
    freg = register_ode_rhs(base_function_registry, "u", identifier="<func>f")
    freg = register_function(freg, "<func>s", ("x",), result_names=("r",), result_kinds=(Scalar(is_real_valued=True),))
    freg = register_function(freg, "<func>c", ("x",), result_names=("r",), result_kinds=(Scalar(is_real_valued=False),))
    freg = register_function(freg, "<func>uw", ("x",), result_names=("a", "b"),
                             result_kinds=(UserType("u"), UserType("w")))
    return freg


def fresh_typed(name, kind, ex):
    v = SymNum(z3.Int("val_" + name))
    t = z3.Int("tag_" + name)
    ex.assume(kind_conforms(t, kind))
    return TypedSym(v, t)


CALLS = [0]


def typed_functions(ex, freg):
    """User functions: result tag is symbolic, constrained to the declared
    result kinds.  Built-ins: typed per what the real NumPy-based
    implementation returns."""
    funcs = {}

    def user(fname):
        fn = freg[fname]

        def f(*a, **k):
            CALLS[0] += 1
            kinds = fn.get_result_kinds({}, False) if hasattr(fn, "result_kinds") else None
            if kinds is None:
                from dagrt.data import UserType
                kinds = (UserType(fn.output_type_id),)
            flat = [x._num() if isinstance(x, TypedSym) else x for x in list(a) + [k[n] for n in sorted(k)]]
            outs = []
            for i, kd in enumerate(kinds):
                t = z3.Int(ex.fresh("tag_%s#%d" % (fname, i)))
                ex.assume(kind_conforms(t, kd))
                outs.append(TypedSym(SymNum(symx.uf_apply("%s#%d/%d" % (fname, i, len(flat)), flat)), t))
            return outs[0] if len(outs) == 1 else tuple(outs)
        return f
    for n in ("<func>f", "<func>s", "<func>c", "<func>uw"):
        funcs[n] = user(n)
    return funcs


ARG_SAMPLES = None


def builtin_type_table():
    """For every one-argument built-in (and dot_product) the result type the
    REAL implementation returns for a sample argument of each type -- computed
    by calling the current implementation, so the stubs follow /repo."""
    import numpy as np
    import dagrt.builtins_python as B
    samples = {INT: 3, REAL: 1.5, CPLX: 1 + 2j, ARR_R: np.array([1.0, -2.0, 3.0]), ARR_C: np.array([1j, 2.0]),
               USER0: np.array([1.0, 2.0]), USER0 + 1: np.array([3.0, 4.0])}

    def classify(res, argtag):
        if isinstance(res, (bool, np.bool_)):
            return BOOL
        if isinstance(res, (int, np.integer)):
            return INT
        if isinstance(res, (float, np.floating)):
            return REAL
        if isinstance(res, (complex, np.complexfloating)):
            return CPLX
        if isinstance(res, np.ndarray):
            if res.dtype == bool:
                return ARR_B
            if argtag >= USER0:
                return argtag
            return ARR_C if np.iscomplexobj(res) else ARR_R
        return None
    table = {}
    for name in ("<builtin>len", "<builtin>isnan", "<builtin>norm_1", "<builtin>norm_2", "<builtin>norm_inf", "<builtin>elementwise_abs"):
        table[name] = {}
        for tg, val in samples.items():
            try:
                table[name][tg] = classify(B.builtins[name](val), tg)
            except Exception:  # noqa
                table[name][tg] = None
    table["<builtin>dot_product"] = {}
    for tg, val in samples.items():
        if isinstance(val, np.ndarray):
            table["<builtin>dot_product"][tg] = classify(B.builtins["<builtin>dot_product"](val, val), tg)
    return table


def typed_builtins():
    def num(x):
        return x._num() if isinstance(x, TypedSym) else x
    table = builtin_type_table()
    b = {}

    def one(name):
        def f(x, *rest):
            t = tag_of(x)
            res = z3.IntVal(REAL)
            for tg, rt in table[name].items():
                if rt is not None:
                    res = z3.If(t == tg, z3.IntVal(rt), res)
            # bool / unsupported argument types: treated as int-like
            args = [num(x)] + [num(r) for r in rest]
            if name == "<builtin>isnan":
                return TypedSym(SymBool(symx.uf_apply("bi_" + name, args, z3.BoolSort())), res)
            return TypedSym(SymNum(symx.uf_apply("bi_" + name, args)), res)
        return f
    for name in table:
        b[name] = one(name)
    b["<builtin>array"] = lambda n: TypedSym(SymNum(symx.uf_apply("bi_array", [num(n)])), ARR_R)
    return b


class CheckingStore(dict):
    def __init__(self, ex, table, phase_getter, problems):
        dict.__init__(self)
        self.ex = ex
        self.table = table
        self.phase = phase_getter
        self.problems = problems
        self.loopvars = set()

    def __setitem__(self, name, value):
        dict.__setitem__(self, name, value)
        if name in ("<t>", "<dt>") and not isinstance(value, TypedSym):
            return
        try:
            kind = self.table.get(self.phase(), name)
        except KeyError:
            self.problems.append(("nokind", name, None, None))
            return
        if kind is None:
            self.problems.append(("nonekind", name, None, None))
            return
        self.ex.stats.obligations += 0
        v, m = self.ex.prove(kind_conforms(tag_of(value), kind))
        if v == "refuted":
            t = m.eval(tag_of(value), model_completion=True).as_long()
            self.problems.append(("mismatch", name, repr(kind), t))


TAGNAMES = {0: "bool", 1: "int", 2: "real", 3: "complex", 4: "real array", 5: "complex array", 7: "bool array", 10: "user type u", 11: "user type w"}


def infer(prog, order_no=0):
    """Build and infer.  The presentation order of a phase's statements is an
    input (the builder stores a frozenset): order_no selects program order
    (0), reversed (1) or a deterministic shuffle (>= 2)."""
    import contextlib
    import io
    import dagrt.language as L
    from dagrt.data import infer_kinds
    dag0, builders = pg.build_dag(prog)
    phases = {}
    for name, ph in dag0.phases.items():
        stmts = list(builders[name].statements)
        if order_no == 1:
            stmts.reverse()
        elif order_no >= 2:
            random.Random(order_no).shuffle(stmts)
        phases[name] = L.ExecutionPhase(name=name, next_phase=ph.next_phase, statements=stmts)
    names = list(phases)
    if order_no % 2 == 1:
        names.reverse()
    dag = L.DAGCode({n: phases[n] for n in names}, dag0.initial_phase)
    import signal

    def _alarm(signum, frame):
        raise InferenceHang("kind inference does not terminate within 10 s")
    old = signal.signal(signal.SIGVTALRM, _alarm)      # CPU time
    signal.setitimer(signal.ITIMER_VIRTUAL, 10)
    try:
        with contextlib.redirect_stdout(io.StringIO()):
            table = infer_kinds(dag, registry())
    finally:
        signal.setitimer(signal.ITIMER_VIRTUAL, 0)
        signal.signal(signal.SIGVTALRM, old)
    return dag, table


class InferenceHang(BaseException):
    pass


def harness(prog, dag, table, K):
    def h(ex):
        from dagrt.exec_numpy import NumpyInterpreter
        freg = registry()
        funcs = typed_functions(ex, freg)
        cur = {"phase": dag.initial_phase}

        class It(NumpyInterpreter):
            # the phase whose statements are running (the interpreter itself only keeps the NEXT phase)
            def run_single_step(self):
                cur["phase"] = self.next_phase
                yield from NumpyInterpreter.run_single_step(self)
        it = It(dag, function_map=funcs)
        for n, f in typed_builtins().items():
            it.functions[n] = f
        problems = []
        store = CheckingStore(ex, table, lambda: cur["phase"], problems)
        it.context = store
        it.eval_mapper.context = store
        # inputs: conform to their inferred kinds
        for name, kind in table.global_table.items():
            if kind is None:
                continue
            v = fresh_typed(name, kind, ex)
            dict.__setitem__(store, name, v)
        for n in pg.loop_bound_vars(prog):
            if n in store:
                ex.assume(z3.And(store[n]._num().t >= 0, store[n]._num().t <= 2))
        try:
            nev = 0
            for ev in it.run(max_steps=max(K, len(dag.phases))):       # every phase of a cyclic multi-phase program runs
                nev += 1
                if nev > 16:
                    break
        except (symx.Abort, symx.Unmodelled, symx.BudgetExceeded):
            raise
        except Exception:  # noqa
            pass
        if problems:
            return problems[0]
        return None
    return h


def check_program(prog, K, max_paths, orders=(0, 1, 2)):
    from vf.symx import Stats
    st = Stats()
    info = {"inferred": False, "paths": 0}
    for order_no in orders:
        s, cand, i = check_program_order(prog, K, max_paths, order_no)
        st.add(s)
        info["inferred"] = info["inferred"] or i["inferred"]
        info["paths"] += i["paths"]
        if cand is not None:
            cand["order_no"] = order_no
            return st, cand, info
    return st, None, info


def check_program_order(prog, K, max_paths, order_no):
    from vf.symx import Stats
    st = Stats()
    try:
        dag, table = infer(prog, order_no)
    except InferenceHang as e:
        raise common.HarnessError("program %s: %s (inconclusive for C09; see C14)" % (prog.get("name"), e))
    except Exception:  # noqa
        return st, None, {"inferred": False, "paths": 0}
    st.obligations += 1
    # (a) every assigned variable has a kind
    missing = []
    for pname, ph in dag.phases.items():
        for s in ph.statements:
            for v in s.get_written_variables():
                try:
                    k = table.get(pname, v)
                except KeyError:
                    k = "absent"
                if k is None or k == "absent":
                    missing.append((pname, v, k))
    if missing:
        st.refuted += 1
        return st, {"prog": prog, "kind": "nokind", "problem": "inference succeeded but %s in phase %s has %s kind" % (
            missing[0][1], missing[0][0], "no" if missing[0][2] == "absent" else "a None")}, {"inferred": True, "paths": 0}
    st.discharged += 1
    ex = Explorer(timeout_ms=2000, max_paths=max_paths, max_decisions=200, wall_s=15)
    res = ex.explore(harness(prog, dag, table, K))
    st.add(ex.stats)
    for trail, r in res:
        if r is not None:
            what, name, kind, tag = r
            return st, {"prog": prog, "kind": what, "var": name, "declared": kind, "tag": tag,
                        "problem": "variable %s is inferred as %s but can hold a %s" % (name, kind, TAGNAMES.get(tag, tag))}, \
                {"inferred": True, "paths": ex.stats.paths}
    return st, None, {"inferred": True, "paths": ex.stats.paths}


def work(item):
    tr = common.FunctionTrace()
    tr.start()
    from vf.symx import Stats
    st = Stats()
    cands, samples = [], []
    n = nontriv = 0
    for prog in item["progs"]:
        s, cand, info = check_program(prog, item["K"], item["max_paths"])
        st.add(s)
        if info["inferred"]:
            n += 1
            if info["paths"] >= 1:
                nontriv += 1
        if cand is not None:
            cands.append(cand)
        if len(samples) < 1 and info["paths"] >= 2:
            samples.append({"program": prog.get("name"), "paths": info["paths"]})
    tr.stop()
    return {"stats": st.as_dict(), "candidates": cands, "evaluations": n, "programs": n,
            "distinct_nontrivial": nontriv, "samples": samples, "functions": sorted(tr.seen)}


# ---------------------------------------------------------------------------
# concrete replay: real values of the offending type

def concrete_value(kind, rng, variant):
    import numpy as np
    n = type(kind).__name__
    if n == "Boolean":
        return bool(rng.randint(0, 1))
    if n == "Integer":
        return rng.randint(1, 3)
    if n == "Scalar":
        if kind.is_real_valued:
            return [float(rng.randint(1, 4)) + 0.5, rng.randint(1, 4)][variant % 2]
        return [complex(1, 2), 1.5, 2][variant % 3]
    if n == "Array":
        return np.array([1.0, 2.0, 3.0]) if kind.is_real_valued or variant % 2 else np.array([1j, 2.0, 3.0])
    if n == "UserType":
        return np.array([1.0, 2.0])
    return 0


def value_is_of_kind(v, kind):
    import numpy as np
    n = type(kind).__name__
    if n == "Boolean":
        return isinstance(v, (bool, np.bool_))
    if n == "Integer":
        return isinstance(v, (int, np.integer)) and not isinstance(v, (bool, np.bool_))
    if n == "Scalar":
        if isinstance(v, (bool, np.bool_)):
            return False
        if kind.is_real_valued:
            return isinstance(v, (int, float, np.integer, np.floating))
        return isinstance(v, (int, float, complex, np.number))
    if n == "Array":
        if not isinstance(v, np.ndarray):
            return False
        return (not np.iscomplexobj(v)) if kind.is_real_valued else True
    if n == "UserType":
        return isinstance(v, np.ndarray)
    return False


def replay(d):
    import numpy as np
    if d["kind"] == "builtin":
        probs = builtin_side_check()
        hit = [p for p in probs if p["builtin"] == d["builtin"]]
        return {"reproduced": bool(hit), "detail": str(hit[:1])}
    prog = d["prog"]
    last = None
    for order_no in [d.get("order_no", 0)] + [o for o in range(0, 12) if o != d.get("order_no", 0)]:
        r = replay_order(d, prog, order_no)
        if r["reproduced"]:
            r["detail"] += " [statement presentation order %d]" % order_no
            return r
        last = r
    return last


def replay_order(d, prog, order_no):
    import numpy as np
    try:
        dag, table = infer(prog, order_no)
    except Exception as e:  # noqa
        return {"reproduced": False, "detail": "inference fails on replay: %s" % e}
    if d["kind"] in ("nokind", "nonekind"):
        for pname, ph in dag.phases.items():
            for s in ph.statements:
                for v in s.get_written_variables():
                    try:
                        k = table.get(pname, v)
                    except KeyError:
                        k = None
                    if k is None:
                        return {"reproduced": True, "detail": "program %s: inference succeeds but '%s' (phase %s, statement '%s') has no kind" % (prog.get("name"), v, pname, s)}
        return {"reproduced": False, "detail": "all assigned variables have kinds on replay"}
    from dagrt.exec_numpy import NumpyInterpreter
    for variant in range(6):
        rng = random.Random(variant)
        funcs = {
            "<func>f": lambda t, u: np.array([1.0, 2.0]) * 0.5,
            "<func>s": lambda x: 1.5, "<func>c": lambda x: complex(0, 1) if variant % 2 else 2.5,
            "<func>uw": lambda x: (np.array([1.0, 2.0]), np.array([3.0, 4.0])),
        }
        it = NumpyInterpreter(dag, function_map=funcs)
        bad = []
        cur = {"phase": dag.initial_phase}

        class Store(dict):
            def __setitem__(self, name, value):
                dict.__setitem__(self, name, value)
                try:
                    k = table.get(cur["phase"], name)
                except KeyError:
                    return
                if k is not None and not value_is_of_kind(value, k):
                    bad.append((name, repr(k), type(value).__name__, repr(value)[:40]))
        st = Store()
        it.context = st
        it.eval_mapper.context = st
        for name, kind in table.global_table.items():
            if kind is not None:
                dict.__setitem__(st, name, concrete_value(kind, rng, variant))
        for n in pg.loop_bound_vars(prog):
            if n in st:
                dict.__setitem__(st, n, 2)
        try:
            cur["phase"] = it.next_phase
            for ev in it.run(max_steps=2):
                cur["phase"] = it.next_phase
        except Exception:  # noqa
            pass
        if bad:
            return {"reproduced": True, "detail": "program %s: variable %s inferred as %s holds a %s (%s)" % ((prog.get("name"),) + bad[0])}
    return {"reproduced": False, "detail": "all stored values conform on replay"}


def builtin_side_check():
    """Declared result kinds of built-ins vs. what the real implementations
    return on concrete arguments of every kind (concrete: NumPy is C code)."""
    import numpy as np
    import dagrt.builtins_python as B
    from dagrt.data import Scalar, Array, UserType
    from dagrt.function_registry import base_function_registry as freg
    samples = {
        "real scalar": (1.5, Scalar(True)), "complex scalar": (1 + 2j, Scalar(False)),
        "real array": (np.array([1.0, -2.0, 3.0]), Array(True)), "complex array": (np.array([1j, 2.0]), Array(False)),
        "user type": (np.array([1.0, 2.0]), UserType("u")),
    }
    probs = []
    one_arg = ["<builtin>len", "<builtin>isnan", "<builtin>norm_1", "<builtin>norm_2", "<builtin>norm_inf", "<builtin>elementwise_abs"]
    for name in one_arg:
        for sname, (val, kind) in samples.items():
            try:
                decl = freg[name].get_result_kinds({0: kind}, True)
            except Exception:  # noqa
                continue    # argument kind not accepted by the declaration
            try:
                res = B.builtins[name](val)
            except Exception:  # noqa
                continue
            k = decl[0]
            if isinstance(k, UserType):
                ok = isinstance(res, np.ndarray)
            else:
                ok = value_is_of_kind(res, k)
            if not ok:
                probs.append({"builtin": name, "argument": sname, "declared": repr(k), "returned": "%s %r" % (type(res).__name__, res)})
    for sa, (va, ka) in samples.items():
        if not isinstance(va, np.ndarray):
            continue
        decl = freg["<builtin>dot_product"].get_result_kinds({0: ka, 1: ka}, True)
        res = B.builtins["<builtin>dot_product"](va, va)
        if not value_is_of_kind(res, decl[0]):
            probs.append({"builtin": "<builtin>dot_product", "argument": sa, "declared": repr(decl[0]), "returned": repr(res)})
    res = B.builtins["<builtin>array"](3.0)
    decl = freg["<builtin>array"].get_result_kinds({0: Scalar(True)}, True)
    if not value_is_of_kind(res, decl[0]):
        probs.append({"builtin": "<builtin>array", "argument": "3.0", "declared": repr(decl[0]), "returned": repr(res)})
    return probs


def classify(c, r, open_known):
    return None


# ---------------------------------------------------------------------------
# typed program family

V, C, ADD, MUL = pg.V, pg.C, pg.ADD, pg.MUL
T, DT = pg.T, pg.DT
A, B2, U = V("<state>a"), V("<state>b"), V("<state>u")


def typed_corpus():
    F = lambda *a: ["call", "<func>f", list(a), {}]  # noqa
    progs = [
        pg.P1([["assign", "<state>a", ADD(A, MUL(DT, C(2))), []], ["assign", "x", ["**", A, C(2)], []],
               ["assign", "<state>a", ADD(A, V("x")), []]]),
        pg.P1([["assign", "<state>a", ADD(A, DT), []], ["assign", "q", ["/", V("i"), C(2)], [["i", C(1), C(3)]]],
               ["assign", "<state>a", ADD(A, V("q")), []]]),
        pg.P1([["assign", "<state>a", ADD(A, DT), []], ["assign", "q", ["/", V("i"), V("i")], [["i", C(1), C(3)]]],
               ["assign", "r", MUL(V("q"), A), []]]),
        pg.P1([["assign_call", ["<state>u"], "<func>f", [T, U], {}], ["assign", "k", MUL(DT, F(T, U)), []],
               ["assign", "<state>u", ADD(U, V("k")), []], ["assign", "nrm", ["call", "<builtin>norm_2", [U], {}], []],
               ["assign", "<state>a", ADD(V("nrm"), DT), []]]),
        pg.P1([["assign", "arr", ["call", "<builtin>array", [C(3)], {}], []],
               ["assign", ["sub", "arr", V("i")], ["/", V("i"), C(3)], [["i", C(0), C(3)]]],
               ["assign", "n", ["call", "<builtin>len", [V("arr")], {}], []],
               ["assign", "d", ["call", "<builtin>dot_product", [V("arr"), V("arr")], {}], []],
               ["assign", "e", ["sub", V("arr"), C(1)], []],
               ["assign", "<state>a", ADD(DT, V("e"), V("n")), []]]),
        pg.P1([["assign", "<state>a", ADD(A, DT), []], ["assign", "flag", ["cmp", "<", A, C(0)], []],
               ["assign", "m", ["min", A, DT], []], ["assign", "w", ["max", A, C(1)], []],
               ["if", ["expr", V("flag")], [["assign", "<state>a", ADD(V("m"), V("w")), []]], None]]),
        pg.P1([["assign", "<state>a", ADD(A, DT), []], ["assign", "c", ["call", "<func>c", [A], {}], []],
               ["assign", "z", MUL(V("c"), A), []], ["assign", "s", ["call", "<func>s", [V("z")], {}], []],
               ["assign", "<state>a", ADD(V("s"), DT), []]]),
        pg.P1([["assign_call", ["<state>u"], "<func>f", [T, U], {}],
               ["assign", "bad", ["call", "<builtin>isnan", [U], {}], []],
               ["assign", "nn", ["call", "<builtin>isnan", [DT], {}], []]]),
        pg.P1([["assign_call", ["p", "q"], "<func>uw", [DT], {}], ["assign", "<state>u", MUL(V("p"), DT), []],
               ["assign", "<state>w", ADD(V("q"), V("q")), []], ["assign", "ab", ["call", "<builtin>elementwise_abs", [V("p")], {}], []]]),
        pg.P1([["assign", "<state>a", ADD(A, DT), []], ["assign", "p", ["**", C(2), A], []], ["assign", "p2", ["**", DT, ["/", C(1), C(2)]], []],
               ["assign", "<state>a", ADD(V("p"), V("p2")), []]]),
        pg.P1([["assign", "<state>a", ADD(A, DT), []], ["assign", "acc", C(0), []],
               ["assign", "acc", ADD(V("acc"), MUL(V("i"), A)), [["i", C(0), C(3)]]], ["assign", "half", ["/", V("acc"), C(2)], []]]),
    ]
    # a complex scalar combined with a REAL array, scalar first and array first (sum, product, scaled product)
    progs += [
        pg.P1([["assign", "<state>a", ADD(A, DT), []], ["assign", "z", ["call", "<func>c", [A], {}], []],
               ["assign", "arr", ["call", "<builtin>array", [C(3)], {}], []],
               ["assign", ["sub", "arr", V("i")], ["/", V("i"), C(3)], [["i", C(0), C(3)]]],
               ["assign", "p_za", MUL(V("z"), V("arr")), []], ["assign", "p_az", MUL(V("arr"), V("z")), []],
               ["assign", "s_za", ADD(V("z"), V("arr")), []], ["assign", "p_2za", MUL(C(2), V("z"), V("arr")), []],
               ["assign", "q_za", ["/", V("z"), V("arr")], []]]),
    ]
    # two phases that use the SAME local name with different kinds (array | flag | user type in one, real scalar in the other)
    def two(ops_p, ops_q):
        return {"phases": [{"name": "p", "next": "q", "ops": ops_p}, {"name": "q", "next": "p", "ops": ops_q}], "initial": "p"}
    q_scalar = [["assign", "tmp", MUL(DT, C(2)), []], ["assign", "<state>a", ADD(A, V("tmp")), []]]
    progs += [
        two([["assign", "<state>a", ADD(A, DT), []], ["assign", "tmp", ["call", "<builtin>array", [C(3)], {}], []],
             ["assign", ["sub", "tmp", V("i")], ["/", V("i"), C(3)], [["i", C(0), C(3)]]],
             ["assign", "<state>a", ADD(A, ["sub", V("tmp"), C(1)]), []]], q_scalar),
        two([["assign", "<state>a", ADD(A, DT), []], ["assign", "tmp", ["cmp", "<", A, C(0)], []],
             ["if", ["expr", V("tmp")], [["assign", "<state>a", ADD(A, C(1)), []]], None]], q_scalar),
        two([["assign_call", ["<state>u"], "<func>f", [T, U], {}], ["assign", "tmp", F(T, U), []],
             ["assign", "<state>u", ADD(U, V("tmp")), []], ["assign", "<state>a", ADD(DT, DT), []]], q_scalar),
        two(q_scalar, [["assign", "<state>a", ADD(A, DT), []], ["assign", "tmp", V("i"), [["i", C(0), C(3)]]],
                       ["assign", "arr", ["call", "<builtin>array", [C(3)], {}], []], ["assign", ["sub", "arr", V("tmp")], A, []]]),
    ]
    for i, p in enumerate(progs):
        p["name"] = "typed_%d" % i
    return progs


def random_typed(rng, idx):
    if rng.random() < 0.3:
        # two phases generated independently over the same local names (x, y, z, fl may get different kinds in each)
        return {"name": "trand%d" % idx, "initial": "p",
                "phases": [{"name": "p", "next": "q", "ops": _random_typed_ops(rng)}, {"name": "q", "next": "p", "ops": _random_typed_ops(rng)}]}
    return dict(pg.P1(_random_typed_ops(rng)), name="trand%d" % idx)


def _random_typed_ops(rng):
    defined = {"<t>": "S", "<dt>": "S", "<state>a": "S"}
    ops = [["assign", "<state>a", ADD(A, DT), []]]
    n = rng.randint(2, 6)
    scal = lambda: [x for x in defined if defined[x] == "S"]  # noqa
    for _ in range(n):
        r = rng.random()
        tgt = rng.choice(["x", "y", "z", "<state>b", "<state>a"])
        s = scal()
        if r < 0.5:
            op = rng.choice(["+", "*", "/", "**", "min", "max"])
            a, b = V(rng.choice(s)), rng.choice([V(rng.choice(s)), C(2), C(0.5)])
            if op == "if":
                e = ["if", ["cmp", "<", a, b], a, b]
            elif op in ("min", "max"):
                e = [op, a, b]
            else:
                e = [op, a, b]
            ops.append(["assign", tgt, e, []])
            defined[tgt] = "S"
        elif r < 0.7:
            e = rng.choice([["/", V("i"), C(2)], ADD(V("i"), V(rng.choice(s))), ["/", V("i"), ADD(V("i"), C(1))], V("i"), ["**", V("i"), C(2)]])
            ops.append(["assign", tgt, e, [["i", C(0), C(3)]]])
            defined[tgt] = "S"
        elif r < 0.85:
            ops.append(["assign", tgt, ["call", rng.choice(["<func>s", "<func>c"]), [V(rng.choice(s))], {}], []])
            defined[tgt] = "S"
        else:
            ops.append(["assign", "fl", ["cmp", rng.choice(["<", ">", "=="]), V(rng.choice(s)), V(rng.choice(s))], []])
    return ops


def selftests():
    import dagrt.data as D
    res = {}
    prog = typed_corpus()[5]
    s, c, info = check_program(prog, 1, 50)
    res["baseline_ok"] = c is None and info["inferred"] and info["paths"] >= 2
    orig = D.KindInferenceMapper.map_comparison
    D.KindInferenceMapper.map_comparison = lambda self, expr: D.Scalar(is_real_valued=True)
    try:
        s, c, info = check_program(prog, 1, 50)
        res["fault_comparison_is_scalar_detected"] = c is not None
    finally:
        D.KindInferenceMapper.map_comparison = orig
    return res


def main(tier, seed):
    run = Run(PID, tier, seed, "other")
    progs = typed_corpus()
    ncur = len(progs)
    rng = random.Random(seed)
    nrand = 200 if tier == "quick" else 8000
    for i in range(nrand):
        progs.append(random_typed(rng, i))
    K, max_paths = (1, 40) if tier == "quick" else (2, 150)
    for part in pmap("vf.checks.c09", "work", [{"progs": p, "K": K, "max_paths": max_paths} for p in chunks(progs, common.NPROC * 4)]):
        run.absorb(part)
    # concrete side check of the built-ins
    side = builtin_side_check()
    run.stats.obligations += 1
    if side:
        run.stats.refuted += 1
        seen = set()
        for p in side:
            if p["builtin"] not in seen:
                seen.add(p["builtin"])
                run.candidates.append({"kind": "builtin", "builtin": p["builtin"], "problem": str(p)})
    else:
        run.stats.discharged += 1
    run.extra["builtin_side_check_mismatches"] = side[:6]
    run.bounds = {"curated_programs": ncur, "random_programs": nrand, "steps": K, "max_paths_per_program": max_paths,
                  "type_universe": list(TAGNAMES.values())}
    run.selftests = selftests()
    if not all(run.selftests.values()):
        run.harness_errors.append("self-test failed: %r" % run.selftests)
    run.assumptions = [
        "conformance: bool<->Boolean, int<->Integer, int|real<->Scalar(real), int|real|complex<->Scalar(complex), real array<->Array(real), any array<->Array(complex), user(id)<->UserType(id)",
        "value-dependent complexification of x**y (negative base, fractional exponent) and int**negative are outside the claim",
        "element stores do not change an array's type (NumPy casts or raises)",
        "built-in stubs are typed by a table obtained by calling the CURRENT real implementation on one sample argument per type; the declared result kinds are also compared with the real implementations on concrete arguments (concrete side check, not a solver claim: NumPy kernels are C code)",
        "programs on which inference does not succeed are skipped (e.g. conditional expressions: KindInferenceMapper has no map_if; the Fortran pipeline expands them before inference)",
    ]
    return run.finish(
        rule="typed programs on which inference succeeds: %d curated (powers, integer quotients over loop counters, user types, arrays, complex flow, flags, "
             "min/max, conditional expressions, built-ins) + %d seeded random; non-trivial = inference succeeded and at least one path ran" % (ncur, nrand),
        explanation="real inference (concrete) + real interpreter on values with symbolic type tags; one z3 validity query per store into the variable store",
        classify=classify)
