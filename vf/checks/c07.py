"""C07 -- statement-rewriting passes preserve meaning and never capture names.

The REAL eliminate_self_dependencies, isolate_function_arguments,
isolate_function_calls and expand_IfThenElse -- each alone and composed in the
Fortran generator's order -- are applied to create_ast_from_phase of PG
phases.  RefAst executes the tree before and after the pass top to bottom from
ONE symbolic pre-state (every variable of the original tree holds a fresh
symbol) inside one explorer path.  z3 decides on every path: same outcome and
events, every original variable has the same value, the same external calls
with the same arguments.  A read of an introduced variable that has no value
yet is a violation (the path is feasible by construction)."""
import random

import z3

from vf import backends, common, pg, refast, stmtdsl, symx
from vf.common import Run, pmap, chunks
from vf.symx import Explorer, SymArr

PID = "C07"


def passes():
    import dagrt.codegen.transform as T

    order = fortran_pass_order()

    def composed(ast):
        for name in order:
            ast = getattr(T, name)(ast)
        return ast
    return {"eliminate_self_dependencies": T.eliminate_self_dependencies,
            "isolate_function_arguments": T.isolate_function_arguments,
            "isolate_function_calls": T.isolate_function_calls,
            "expand_IfThenElse": T.expand_IfThenElse,
            "fortran_order": composed}


def fortran_pass_order():
    """The order in which the Fortran generator applies the passes, read from
    the CURRENT source of CodeGenerator.__call__ (lines `ast = <pass>(ast)`)."""
    import inspect
    import re
    import dagrt.codegen.fortran as F
    src = inspect.getsource(F.CodeGenerator.__call__)
    order = re.findall(r"^\s*ast = (\w+)\(ast\)\s*$", src, re.M)
    known = {"eliminate_self_dependencies", "isolate_function_arguments", "isolate_function_calls", "expand_IfThenElse"}
    if not order or not set(order) <= known:
        raise common.HarnessError("cannot read the pass order from fortran.CodeGenerator.__call__: %r" % order)
    return order


def tree_names(ast):
    from dagrt.codegen.dag_ast import get_statements_in_ast, LoopVariableFinder
    names, ids = set(), []
    for s in get_statements_in_ast(ast):
        names |= set(s.get_read_variables()) | set(s.get_written_variables())
        ids.append(s.id)
        for ident, _, _ in getattr(s, "loops", []):
            names.add(ident)
    names |= set(LoopVariableFinder()(ast))
    return names, ids


def copy_store(store):
    return {k: (SymArr(v.items, v.name) if isinstance(v, SymArr) else (list(v) if isinstance(v, list) else
                (v.copy() if type(v).__name__ == "ndarray" else v))) for k, v in store.items()}


def compare_runs(prover, r0, r1, orig_names):
    if r0.outcome != r1.outcome:
        return "outcome %s before, %s after" % (r0.outcome, r1.outcome)
    if len(r0.events) != len(r1.events):
        return "%d events before, %d after" % (len(r0.events), len(r1.events))
    for a, b in zip(r0.events, r1.events):
        if prover(symx.sym_eq(a, b)) == "refuted":
            return "event %r before, %r after" % (a, b)
    for v in sorted(orig_names):
        in0, in1 = v in r0.store, v in r1.store
        if in0 != in1:
            return "variable %s is %s before and %s after" % (v, "set" if in0 else "unset", "set" if in1 else "unset")
        if in0 and prover(symx.sym_eq(r0.store[v], r1.store[v])) == "refuted":
            return "variable %s = %r before, %r after" % (v, r0.store[v], r1.store[v])
    if len(r0.calls) != len(r1.calls):
        return "%d external calls before (%s), %d after (%s)" % (len(r0.calls), [c[0] for c in r0.calls], len(r1.calls), [c[0] for c in r1.calls])
    left = list(r1.calls)
    for c in r0.calls:
        hit = None
        for k, c2 in enumerate(left):
            if c2[0] == c[0] and len(c2[1]) == len(c[1]) and set(c2[2]) == set(c[2]):
                eq = symx.z3_and([symx.sym_eq(x, y) for x, y in zip(c[1], c2[1])]
                                 + [symx.sym_eq(c[2][n], c2[2][n]) for n in c[2]])
                if prover(eq) == "valid":
                    hit = k
                    break
        if hit is None:
            return "call %s%r has no counterpart with equal arguments after the pass" % (c[0], tuple(c[1]))
        left.pop(hit)
    return None


def make_store(roles, concrete=None):
    store = {}
    for name, role in sorted(roles.items()):
        if name.startswith(("<func>", "<builtin>")):
            continue
        if concrete is not None:
            v = concrete.get(name, 0)
            if isinstance(v, list):
                import numpy as np
                v = np.array(v, dtype=object)
            store[name] = v
        else:
            store[name] = stmtdsl.make_value(name, role, "pre_")
    return store


def harness(ast0, ast1, roles, orig_names, bound_names):
    def h(ex):
        store = make_store(roles)
        for n in bound_names:
            if n in store and roles.get(n) == "num":
                ex.assume(z3.And(store[n].t >= 0, store[n].t <= 2))
        funcs = backends.sym_user_functions()
        import dagrt.builtins_python as B
        for n in B.builtins:
            funcs[n] = backends.sym_builtin_stub(n)
        state = {"model": None}

        def prover(c):
            v, m = ex.prove(c)
            if v == "refuted":
                state["model"] = m
            return v
        try:
            r0 = refast.Run(copy_store(store), funcs).run(ast0)
        except refast.UndefinedRead:
            raise symx.Abort()
        except (IndexError, ZeroDivisionError, OverflowError, TypeError):
            raise symx.Abort()        # the ORIGINAL program fails on this path: outside the claim
        bad = None
        try:
            r1 = refast.Run(copy_store(store), funcs).run(ast1)
        except refast.UndefinedRead as u:
            bad = "after the pass, variable %s is read before it is set" % u.name
        except (IndexError, ZeroDivisionError, OverflowError):
            raise symx.Abort()
        except TypeError as e:
            # the original ran through on this path; a type error afterwards means the pass changed what a variable
            # holds (e.g. an array overwritten by a scalar and then subscripted)
            bad = "the original phase runs, after the pass it raises TypeError: %s" % str(e)[:120]
        if bad is None:
            bad = compare_runs(prover, r0, r1, orig_names)
        if bad is None:
            return None
        m = state["model"] or ex.path_model()
        conc = {}
        if m is not None:
            for name, role in roles.items():
                if name.startswith(("<func>", "<builtin>")):
                    continue
                conc[name] = symx.concretize(stmtdsl.make_value(name, role, "pre_"), m)
        return {"problem": bad, "store": conc, "ufs": backends.uf_tables_from_model(m) if m is not None else {}}
    return h


def phase_roles(prog, ast0):
    roles = dict(pg.var_roles(prog))
    names, _ = tree_names(ast0)
    for n in names:
        if n not in roles:
            roles[n] = "bool" if n.startswith("<cond>") else "num"
    return {n: r for n, r in roles.items() if n in names}


def check_program(prog, max_paths):
    from vf.symx import Stats
    from dagrt.codegen.dag_ast import create_ast_from_phase
    st = Stats()
    cands = []
    info = {"paths": 0}
    try:
        dag, _ = pg.build_dag(prog)
    except Exception:  # noqa
        return st, cands, info
    P = passes()
    for pname in dag.phases:
        try:
            ast0 = create_ast_from_phase(dag, pname)
        except Exception:  # noqa
            continue
        names0, ids0 = tree_names(ast0)
        roles = phase_roles(prog, ast0)
        bound = pg.loop_bound_vars(prog)
        for passname, fn in P.items():
            st.obligations += 1
            try:
                ast1 = fn(ast0)
                names1, ids1 = tree_names(ast1)
            except Exception as e:  # noqa
                st.refuted += 1
                cands.append({"prog": prog, "phase": pname, "pass": passname, "kind": "exception",
                              "problem": "%s raised %s: %s" % (passname, type(e).__name__, str(e)[:120])})
                continue
            if len(set(ids1)) != len(ids1):
                st.refuted += 1
                cands.append({"prog": prog, "phase": pname, "pass": passname, "kind": "ids",
                              "problem": "statement ids not unique after %s: %s" % (passname, sorted(ids1))})
                continue
            st.discharged += 1
            ex = Explorer(timeout_ms=1500, max_paths=max_paths, max_decisions=250, wall_s=15)
            res = ex.explore(harness(ast0, ast1, roles, names0, bound))
            st.add(ex.stats)
            info["paths"] += ex.stats.paths
            for trail, r in res:
                if r is not None:
                    cands.append({"prog": prog, "phase": pname, "pass": passname, "kind": "semantic",
                                  "problem": r["problem"], "store": r["store"], "ufs": r["ufs"]})
                    break
    return st, cands, info


def work(item):
    tr = common.FunctionTrace()
    tr.start()
    from vf.symx import Stats
    st = Stats()
    cands, samples = [], []
    n = nontriv = 0
    for prog in item["progs"]:
        s, c, info = check_program(prog, item["max_paths"])
        st.add(s)
        n += 1
        if info["paths"] >= 5:
            nontriv += 1
        seen = set()
        for x in c:
            if x["pass"] not in seen:
                seen.add(x["pass"])
                cands.append(x)
        if len(samples) < 1 and info["paths"] >= 10:
            samples.append({"program": prog.get("name"), "paths_over_all_passes": info["paths"]})
    tr.stop()
    return {"stats": st.as_dict(), "candidates": cands, "evaluations": n, "programs": n,
            "distinct_nontrivial": nontriv, "samples": samples, "functions": sorted(tr.seen)}


# ---------------------------------------------------------------------------

def replay(d):
    from dagrt.codegen.dag_ast import create_ast_from_phase
    prog = d["prog"]
    dag, _ = pg.build_dag(prog)
    ast0 = create_ast_from_phase(dag, d["phase"])
    fn = passes()[d["pass"]]
    try:
        ast1 = fn(ast0)
        names1, ids1 = tree_names(ast1)
    except Exception as e:  # noqa
        return {"reproduced": True, "detail": "program %s phase %s: %s raised %s: %s" % (prog.get("name"), d["phase"], d["pass"], type(e).__name__, e)}
    if d["kind"] == "exception":
        return {"reproduced": False, "detail": "no exception on replay"}
    if len(set(ids1)) != len(ids1):
        return {"reproduced": True, "detail": "program %s: ids not unique after %s: %s" % (prog.get("name"), d["pass"], sorted(ids1))}
    if d["kind"] == "ids":
        return {"reproduced": False, "detail": "ids unique on replay"}
    names0, _ = tree_names(ast0)
    roles = phase_roles(prog, ast0)
    rng = random.Random(4)
    stores = [d.get("store") or {}]
    # the model's store first (it may run into a division by zero that is uninterpreted in the symbolic run), then its
    # one-variable variations, then random stores from a narrow range (equalities between variables must be likely)
    base = stores[0]
    for n, r in roles.items():
        if r == "num" and n in base and not isinstance(base[n], (list, bool)):
            for v in (-2, -1, 1, 2, 3):
                if v != base[n]:
                    stores.append(dict(base, **{n: v}))
    for k in range(300):
        lo, hi = ((-1, 2) if k % 2 == 0 else (-4, 5))
        s = {}
        for n, r in roles.items():
            s[n] = [rng.randint(lo, hi) for _ in range(3)] if r == "arr" else (
                bool(rng.randint(0, 1)) if r == "bool" else rng.randint(0, 2) if n in pg.loop_bound_vars(prog) else rng.randint(lo, hi))
        stores.append(s)
    for conc, generic in [(c, False) for c in stores] + [(c, True) for c in stores]:
        # second pass: user functions that never return 0 (see backends.generic_user_functions)
        funcs = backends.generic_user_functions() if generic else backends.concrete_user_functions(d.get("ufs") or {})
        import numpy as np
        funcs["<builtin>len"] = lambda x: np.size(x)
        funcs["<builtin>norm_2"] = lambda x: abs(x) if np.isscalar(x) else np.linalg.norm(x, 2)
        store = make_store(roles, concrete=conc)

        def prover(c):
            return "valid" if c is True or (not isinstance(c, bool) and z3.is_true(z3.simplify(c))) else "refuted"
        try:
            r0 = refast.Run(copy_store(store), funcs).run(ast0)
        except (refast.UndefinedRead, IndexError, ZeroDivisionError, OverflowError, TypeError):
            continue
        try:
            r1 = refast.Run(copy_store(store), funcs).run(ast1)
            bad = compare_runs(prover, r0, r1, names0)
        except refast.UndefinedRead as u:
            bad = "after the pass, variable %s is read before it is set" % u.name
        except TypeError as e:
            bad = "the original phase runs, after the pass it raises TypeError: %s" % str(e)[:120]
        except (IndexError, ZeroDivisionError, OverflowError):
            continue
        if bad is not None:
            return {"reproduced": True, "detail": "program %s phase %s pass %s, pre-state %s: %s\nafter the pass:\n%s"
                    % (prog.get("name"), d["phase"], d["pass"], conc, bad, _show(ast1))}
    return {"reproduced": False, "detail": "before/after agree on replay"}


def _show(ast):
    from dagrt.codegen.dag_ast import get_statements_in_ast
    return "\n".join("  {%s} %s" % (s.id, s) for s in get_statements_in_ast(ast))[:1500]


def _call_in_if_branch(d, inside=False):
    """Does the DSL term contain a call inside a then/else branch of a
    conditional expression?"""
    k = d[0]
    if k in ("v", "c"):
        return False
    if k == "call":
        if inside and not d[1].startswith("<builtin>"):
            return True
        return any(_call_in_if_branch(x, inside) for x in d[2]) or any(
            _call_in_if_branch(v, inside) for v in (d[3] if len(d) > 3 else {}).values())
    if k == "if":
        return _call_in_if_branch(d[1], inside) or _call_in_if_branch(d[2], True) or _call_in_if_branch(d[3], True)
    if k == "cmp":
        return _call_in_if_branch(d[2], inside) or _call_in_if_branch(d[3], inside)
    return any(_call_in_if_branch(x, inside) for x in d[1:])


def classify(c, r, open_known):
    for k in open_known:
        if k.get("matcher") == "call_hoisted_out_of_conditional_expression":
            # narrow: the mismatch is in the external calls (more calls after the pass), the pass is an
            # isolator (or the pipeline containing them), and the phase has a call inside a branch of a
            # conditional expression
            if c.get("kind") != "semantic" or c.get("pass") not in (
                    "isolate_function_arguments", "isolate_function_calls"):
                continue     # the pipeline order itself was repaired: a failure there is reported
            prob = c.get("problem", "")
            if "external calls before" not in prob:
                continue
            import re
            m = re.match(r"(\d+) external calls before .*?, (\d+) after", prob)
            if not m or int(m.group(2)) <= int(m.group(1)):
                continue
            ph = [p for p in c["prog"]["phases"] if p["name"] == c["phase"]][0]
            if any(_call_in_if_branch(e) for op in pg.walk_ops(ph["ops"]) for e in pg.op_exprs(op)):
                return k["id"]
        if k.get("matcher") == "flatten_drops_call_in_isolated_argument":
            # narrow: fewer external calls after an isolator (or the pipeline containing one), and the
            # phase has a product/quotient with a call factor that pymbolic's flatten reduces away
            # (x*0 -> 0, 0/x -> 0): the isolated argument lands in an Assign, whose constructor flattens
            if c.get("kind") != "semantic" or c.get("pass") not in (
                    "isolate_function_arguments", "isolate_function_calls", "fortran_order"):
                continue
            import re
            m = re.match(r"(\d+) external calls before .*?, (\d+) after", c.get("problem", ""))
            if not m or int(m.group(2)) >= int(m.group(1)):
                continue
            if pg.prog_flatten_drops(c["prog"], "call", phase=c["phase"]):
                return k["id"]
    return None


V, C, ADD, MUL, LT, GT, Y, Z, T, DT = pg.V, pg.C, pg.ADD, pg.MUL, pg.LT, pg.GT, pg.Y, pg.Z, pg.T, pg.DT


def c07_corpus():
    F = lambda *a, **k: ["call", "<func>f", list(a), k]  # noqa
    G = lambda *a, **k: ["call", "<func>g", list(a), k]  # noqa
    IF = lambda c, a, b: ["if", c, a, b]  # noqa
    progs = [
        pg.P1([["assign", "<state>y", F(G(Y), ADD(Z, C(1))), []], pg.yld(Y)]),
        pg.P1([["assign", "<state>y", F(F(F(Y))), []]]),
        pg.P1([["assign", "<state>y", ADD(Y, F(Y, k=G(Z))), []], ["assign", "<state>z", MUL(Z, Z), []]]),
        pg.P1([["assign", "<state>y", IF(LT(Y, C(0)), C(1), C(2)), []]]),
        pg.P1([["assign", "<state>y", IF(LT(Y, C(0)), IF(LT(Z, C(0)), C(1), C(2)), IF(GT(Z, C(5)), C(3), Y)), []]]),
        pg.P1([["assign", "a", IF(IF(LT(Y, C(2)), LT(Z, C(1)), GT(Z, C(1))), C(10), C(20)), []], ["assign", "<state>y", V("a"), []]]),
        pg.P1([["assign", "<state>y", F(IF(LT(Y, C(0)), G(Y), Z)), []]]),
        pg.P1([["assign", "<state>y", IF(LT(F(Y), C(0)), G(Y), F(Z)), []]]),
        pg.P1([["if", ["expr", GT(Y, C(0))], [["assign", "<state>y", F(G(Y)), []], ["assign", "<state>z", IF(LT(Z, C(0)), F(Z), C(0)), []]],
                [["assign", "<state>y", ADD(Y, C(1)), []]]], pg.yld(ADD(Y, Z))]),
        pg.P1([["assign", "y", Y, []], ["assign", "y", F(C(0), MUL(C(2), V("i"), F(C(0), IF(GT(V("i"), C(2)), V("y"), MUL(C(2), V("y")))))),
                                         [["i", C(0), C(3)]]], ["assign", "<state>y", V("y"), []]]),
        pg.P1([["assign", "acc", C(0), []], ["assign", "acc", ADD(V("acc"), F(V("i"))), [["i", C(0), V("<state>n")]]],
               ["assign", "<state>y", V("acc"), []]]),
        # names that look like generated ones
        pg.P1([["assign", "tmp", Y, []], ["assign", "tmp_0", Z, []], ["assign", "<state>y", F(G(V("tmp")), ADD(V("tmp_0"), C(1))), []],
               ["assign", "<state>z", ADD(V("tmp"), V("tmp_0")), []]]),
        pg.P1([["assign", "ifthenelse_result", Y, []], ["assign", "<cond>ifthenelse_cond", LT(Z, C(0)), []],
               ["assign", "<state>y", IF(LT(Y, C(0)), V("ifthenelse_result"), C(2)), []],
               ["if", ["expr", V("<cond>ifthenelse_cond")], [["assign", "<state>z", V("ifthenelse_result"), []]], None]]),
        pg.P1([["assign", "temp__state_y", Z, []], ["assign", "<state>y", ADD(Y, V("temp__state_y")), []],
               ["assign", "<state>z", V("temp__state_y"), []]]),
        pg.P1([["assign", "tmp", C(1), []], ["assign", ["sub", "<state>v", V("tmp")], F(G(Y)), []], pg.yld(["sub", V("<state>v"), C(1)])]),
        pg.P1([["assign", "tmp", C(2), []], ["assign", ["sub", "<state>v", V("i")], F(ADD(V("i"), C(1))), [["i", C(0), V("tmp")]]],
               pg.yld(["sub", V("<state>v"), C(0)])]),
        pg.P1([["assign_call", ["a", "b"], "<func>h2", [ADD(Y, C(1))], {"k": IF(LT(Z, C(0)), Y, Z)}],
               ["assign", "<state>y", ADD(V("a"), V("b")), []]]),
        pg.P1([["assign", "<state>y", ADD(Y, C(1)), []], ["assign", "<state>y", MUL(Y, Y), []],
               ["assign", ["sub", "<state>v", C(0)], ADD(["sub", V("<state>v"), C(0)], C(1)), []]]),
        pg.P1([pg.yld(F(G(Y)), t=IF(LT(T, C(0)), T, DT)), ["if", ["expr", GT(F(Y), C(0))], [["fail"]], None]]),
        # a call factor next to a factor that flatten reduces to 0 (C07-K2)
        pg.P1([["assign_call", ["<state>z"], "<func>g", [MUL(G(C(0)), ["/", C(0), DT])], {}]]),
    ]
    # conditional expressions nested in either branch of another one, with an external call in the inner then / else branch,
    # at top level and inside a guarded block (the derived statements must carry the enclosing guards: a call in a branch that
    # is not selected must not happen)
    for inner in (IF(LT(Z, C(0)), Y, F(Z)), IF(LT(Z, C(0)), F(Z), Y), IF(LT(Z, C(0)), G(Y), F(Z))):
        for outer in (lambda e: IF(GT(Y, C(1)), e, Z), lambda e: IF(GT(Y, C(1)), Z, e)):
            progs.append(pg.P1([["assign", "<state>y", outer(inner), []]]))
            progs.append(pg.P1([["if", ["expr", GT(T, C(0))], [["assign", "<state>y", outer(inner), []]], [["assign", "<state>z", inner, []]]]]))
    # a tagged variable next to a user variable spelled like its identifier form (or like the eliminator's temporary
    # for it), both read and written by one statement, then both self-updated again
    for tagged in ("<p>k", "<state>z"):
        ident = tagged.replace("<", "_").replace(">", "_")
        for alias in (ident, "temp_" + ident, "temp_" + ident + "_0"):
            progs.append(pg.P1([["assign", alias, ADD(Y, C(1)), []],
                                ["assign_call", [tagged, alias], "<func>h2", [V(tagged), V(alias)], {}],
                                ["assign", alias, ADD(V(alias), V(tagged)), []],
                                ["assign", tagged, MUL(V(tagged), V(alias)), []],
                                ["assign", "<state>y", ADD(V(tagged), V(alias)), []]]))
    for i, p in enumerate(progs):
        p["name"] = "c07_%d" % i
    return progs


def adversarial_names(prog):
    """Names a user could have chosen that resemble what the passes generate for THIS program: the identifier
    form of every tagged name (<p>k -> _p_k), the eliminator's temp_ prefix on it, and the isolators' / expander's
    fixed prefixes with and without a counter suffix."""
    import re
    out = []
    for n in sorted(pg.var_roles(prog)):
        if n.startswith("<cond>"):
            continue
        ident = re.sub("[^0-9a-zA-Z_]", "_", n)
        if ident != n:
            out.append(ident)
        out += ["temp_" + ident, "temp_" + ident + "_0"]
    return out + ["tmp", "tmp_0", "tmp_1", "ifthenelse_result", "ifthenelse_result_0", "temp", "temp_0"]


def adversarial_rename(prog, rng):
    roles = pg.var_roles(prog)
    users = [n for n in ("a", "b", "c") if n in roles]
    pool = [n for n in adversarial_names(prog) if n not in roles]
    if not users or len(pool) < len(users):
        return None
    rng.shuffle(pool)
    # identifier forms of tagged names first, half of the time
    if rng.random() < 0.5:
        pool.sort(key=lambda n: not n.startswith("_"))
    return pg.rename_vars(prog, dict(zip(users, pool)))


def selftests():
    import dagrt.codegen.transform as T
    res = {}
    prog = c07_corpus()[2]
    s, c, info = check_program(prog, 100)
    res["baseline_ok"] = not c and info["paths"] >= 5
    orig = T.ExprFunctionArgumentIsolator.isolate_arg

    def bad(self, expr, base_condition, base_deps, extra_deps):
        from pymbolic.primitives import Variable
        if isinstance(expr, Variable):
            return expr
        from dagrt.language import Assign
        from pymbolic import var
        tmp_stmt_id = self.stmt_id_gen("tmp")
        extra_deps.append(tmp_stmt_id)
        sub = []
        rec_result = self.rec(expr, base_condition, base_deps, sub)
        self.new_statements.append(Assign("tmp_shared", (), rec_result, condition=base_condition,
                                          depends_on=base_deps | frozenset(sub), id=tmp_stmt_id))
        return var("tmp_shared")
    T.ExprFunctionArgumentIsolator.isolate_arg = bad
    try:
        prog2 = c07_corpus()[0]
        s, c, info = check_program(prog2, 100)
        res["fault_shared_temporary_detected"] = bool(c)
    finally:
        T.ExprFunctionArgumentIsolator.isolate_arg = orig
    return res


def main(tier, seed):
    run = Run(PID, tier, seed, "translation_validation")
    progs = c07_corpus() + pg.corpus()
    ncur = len(progs)
    rng = random.Random(seed)
    nrand = 150 if tier == "quick" else 12000
    g = pg.ProgGen(rng, max_ops=6, multi_phase=False,
                   pair_targets=[("a", "b"), ("<p>k", "a"), ("<state>z", "b"), ("<state>y", "c"), ("b", "<state>z")])
    nren = 0
    for i in range(nrand):
        prog = g.program(i)
        progs.append(prog)
        if i % 2 == 0:
            ren = adversarial_rename(prog, rng)
            if ren is not None:
                ren["name"] = prog["name"] + "_renamed"
                progs.append(ren)
                nren += 1
    max_paths = 60 if tier == "quick" else 250
    for part in pmap("vf.checks.c07", "work", [{"progs": p, "max_paths": max_paths} for p in chunks(progs, common.NPROC * 6)]):
        run.absorb(part)
    run.bounds = {"curated_programs": ncur, "random_programs": nrand, "renamed_variants": nren, "passes": list(passes()),
                  "fortran_order_read_from_source": fortran_pass_order(),
                  "max_paths_per_phase_and_pass": max_paths, "expression_depth": "<= 3 (curated up to 5)",
                  "loop_trip_counts": "0..3", "array_length": 3}
    run.selftests = selftests()
    if not all(run.selftests.values()):
        run.harness_errors.append("self-test failed: %r" % run.selftests)
    run.assumptions = [
        "RefAst (vf/refast.py) is the reference semantics of structured phases; a leaf's own `condition` attribute is honoured as the interpreter does",
        "the pre-state assigns a fresh symbol to EVERY variable of the original tree, so any read of a variable without a value after the pass is a read of an introduced variable",
        "user functions / built-ins pure and uninterpreted; external calls compared as a multiset of (function, argument values)",
        "loop-bound variables range over 0..2; arrays have length 3; index/arith error paths are outside the claim",
    ]
    return run.finish(
        rule="phases of %d curated programs (nested calls, nested conditional expressions, self-dependent loop updates, guards, user names that "
             "look like generated ones incl. only in left-hand subscripts / loop bounds) + %d seeded random programs; each under 4 passes alone and "
             "the Fortran pipeline order; non-trivial = at least 5 paths over all passes" % (ncur, nrand),
        explanation="real passes; before/after trees executed by RefAst in one explorer path from a fully symbolic pre-state; z3 validity per variable, event and call",
        classify=classify)
