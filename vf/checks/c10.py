"""C10 -- verify_code accepts exactly the well-formed methods.

Shape family: method descriptions whose dependency edges (over all statements of
all phases, a ghost id and self-loops), switch targets and flag writers are
choice bits of the explorer (z3 Bools realised by forking).  After a shape is
fixed nothing data-like is left, so this check is bounded-exhaustive
exploration (level: exploration): the REAL verify_code is run on every shape
and compared with an independent well-formedness predicate; every accepted
method is pushed through the real interpreter, lowering and both generators.
"""
import itertools
import random
import signal

import z3

from vf import common, symx
from vf.common import Run, pmap
from vf.symx import Explorer

PID = "C10"
GHOST = "ghost_stmt"


# spec: {"phases": {name: [stmt...]}, "initial": name}
# stmt: {"id":..., "kind": "nop"|"switch"|"flag", "deps": [...], "target": name, "flag": "c"}

def stmt_orders(n):
    """Orders in which a phase's statement list is presented (the container
    order is an input: ExecutionPhase.statements is 'in no particular order')."""
    idx = list(range(n))
    if n <= 3:
        return [list(p) for p in itertools.permutations(idx)]
    return [idx, idx[::-1], idx[1:] + idx[:1], idx[2:] + idx[:2]]


def build_dag(spec, order_no=0):
    import dagrt.language as L
    from pymbolic.primitives import Comparison, Variable
    phases = {}
    for pname, stmts in spec["phases"].items():
        out = []
        for s in stmts:
            if s["kind"] == "nop":
                # a plain assignment to a private temporary (the interpreter
                # cannot execute language.Nop at all -- outside this property)
                out.append(L.Assign(assignee="tmp_" + s["id"], assignee_subscript=(), expression=1,
                                    id=s["id"], depends_on=s["deps"]))
            elif s["kind"] == "switch":
                out.append(L.SwitchPhase(next_phase=s["target"], id=s["id"], depends_on=s["deps"]))
            elif s["kind"] == "flag":
                out.append(L.Assign(assignee="<cond>" + s["flag"], assignee_subscript=(),
                                    expression=Comparison(Variable("<t>"), "<", 1),
                                    id=s["id"], depends_on=s["deps"]))
            else:
                raise ValueError(s)
        orders = stmt_orders(len(out))
        o = orders[order_no % len(orders)]
        phases[pname] = L.ExecutionPhase(name=pname, next_phase=pname, statements=[out[i] for i in o])
    return L.DAGCode(phases, spec["initial"])


def well_formed(spec):
    """Independent predicate; returns list of reasons (empty = well-formed)."""
    reasons = []
    for pname, stmts in spec["phases"].items():
        ids = [s["id"] for s in stmts]
        idset = set(ids)
        for s in stmts:
            for d in s["deps"]:
                if d not in idset:
                    reasons.append("dependency %s of %s not in phase %s" % (d, s["id"], pname))
        # Kahn on in-phase edges
        deps = {s["id"]: {d for d in s["deps"] if d in idset} for s in stmts}
        done = set()
        progress = True
        while progress:
            progress = False
            for i in ids:
                if i not in done and deps[i] <= done:
                    done.add(i)
                    progress = True
        if done != idset:
            reasons.append("cycle in phase %s" % pname)
        flags = {}
        for s in stmts:
            if s["kind"] == "flag":
                flags[s["flag"]] = flags.get(s["flag"], 0) + 1
            if s["kind"] == "switch" and s["target"] not in spec["phases"]:
                reasons.append("switch to missing phase %s" % s["target"])
        for f, n in flags.items():
            if n > 1:
                reasons.append("flag %s assigned %d times in phase %s" % (f, n, pname))
    return reasons


class _Hang(BaseException):
    pass


def _alarm(signum, frame):
    raise _Hang()


def run_real(spec, downstream=True, order_no=0):
    """Run the real verify_code and, if accepted, the consumers.  Returns a
    dict describing what happened."""
    from dagrt.codegen.analysis import verify_code, CodeGenerationError
    dag = build_dag(spec, order_no)
    out = {"accepted": None, "error": None, "downstream": None}
    signal.signal(signal.SIGVTALRM, _alarm)      # CPU time
    signal.setitimer(signal.ITIMER_VIRTUAL, 10)
    try:
        try:
            verify_code(dag)
            out["accepted"] = True
        except CodeGenerationError as e:
            out["accepted"] = False
            if not getattr(e, "errors", None):
                out["error"] = "CodeGenerationError without a message"
            else:
                try:
                    str(e)
                except Exception as e2:  # noqa
                    out["error"] = "CodeGenerationError cannot be printed: %s" % type(e2).__name__
        except _Hang:
            out["error"] = "verify_code did not terminate within 10 s"
        except Exception as e:  # noqa
            out["error"] = "verify_code raised %s" % type(e).__name__
        if out["accepted"] and downstream:
            out["downstream"] = run_downstream(dag)
    finally:
        signal.setitimer(signal.ITIMER_VIRTUAL, 0)
    return out


def run_downstream(dag):
    """Interpreter, lowering, both generators on an accepted method; returns
    None or a failure description."""
    import contextlib
    import io
    try:
        from dagrt.exec_numpy import NumpyInterpreter
        it = NumpyInterpreter(dag, function_map={})
        it.set_up(t_start=0, dt_start=1, context={})
        for _ in it.run(max_steps=2):
            pass
    except _Hang:
        return "interpreter did not terminate"
    except Exception as e:  # noqa
        return "interpreter: %s: %s" % (type(e).__name__, str(e)[:80])
    try:
        from dagrt.codegen.dag_ast import create_ast_from_phase
        for p in dag.phases:
            create_ast_from_phase(dag, p)
    except _Hang:
        return "lowering did not terminate"
    except Exception as e:  # noqa
        return "create_ast_from_phase: %s: %s" % (type(e).__name__, str(e)[:80])
    try:
        from dagrt.codegen import PythonCodeGenerator
        PythonCodeGenerator(class_name="M")(dag)
    except _Hang:
        return "python generator did not terminate"
    except Exception as e:  # noqa
        return "python generator: %s: %s" % (type(e).__name__, str(e)[:80])
    try:
        import dagrt.codegen.fortran as F
        with contextlib.redirect_stdout(io.StringIO()):
            F.CodeGenerator("m", user_type_map={})(dag)
    except _Hang:
        return "fortran generator did not terminate"
    except Exception as e:  # noqa
        return "fortran generator: %s: %s" % (type(e).__name__, str(e)[:80])
    return None


def judge(spec):
    """Returns None if the property holds on this shape, else a description."""
    wf = well_formed(spec)
    norders = max(len(stmt_orders(len(st))) for st in spec["phases"].values())
    for order_no in range(norders):
        bad = judge_order(spec, wf, order_no)
        if bad is not None:
            return bad + " [statement order %d]" % order_no
    return None


DEP_FAILURES = ("KeyError", "RecursionError", "AssertionError", "IndexError", "did not terminate")


def judge_order(spec, wf, order_no):
    r = run_real(spec, order_no=order_no)
    if r["error"]:
        return r["error"] + " (oracle: %s)" % (wf or "well-formed")
    if r["accepted"] and wf:
        return "accepted an ill-formed method: %s" % wf[:2]
    if not r["accepted"] and not wf:
        return "rejected a well-formed method"
    if r["accepted"] and r["downstream"] and any(k in r["downstream"] for k in DEP_FAILURES):
        return "accepted, but " + r["downstream"]
    return None


# ---------------------------------------------------------------------------
# families as explorer harnesses: every bit is a SymBool choice

def bit(name, preset):
    if name in preset:
        return preset[name]
    return bool(symx.SymBool(z3.Bool(name)))


def family_graph(layout, ghost_sources, preset):
    """layout: list of (phase, n_statements).  Edge bits over all ordered
    pairs (incl. self-loops and cross-phase) + ghost edges from the listed
    statement indexes."""
    ids = []
    for pname, n in layout:
        for i in range(n):
            ids.append((pname, "%s_s%d" % (pname, i)))
    spec = {"phases": {p: [] for p, _ in layout}, "initial": layout[0][0]}
    for a, (pa, ia) in enumerate(ids):
        deps = []
        for b, (pb, ib) in enumerate(ids):
            if bit("e_%d_%d" % (a, b), preset):
                deps.append(ib)
        if a in ghost_sources and bit("g_%d" % a, preset):
            deps.append(GHOST)
        spec["phases"][pa].append({"id": ia, "kind": "nop", "deps": deps})
    return spec


def family_misc(preset):
    """Switch targets x flag writers x a few edge patterns, two phases."""
    ex = symx.cur()
    spec = {"phases": {"p": [], "q": []}, "initial": "p"}
    tgt = ["p", "q", "missing"][ex.choice(3, "tgt")]
    npw = ex.choice(3, "npw")   # writers of flag c in p
    nqw = ex.choice(3, "nqw")   # writers of flag c in q
    other = ex.choice(2, "otherflag")  # a second flag d written once in p
    pattern = ex.choice(4, "pat")
    p = []
    p.append({"id": "p_sw", "kind": "switch", "target": tgt, "deps": []})
    for i in range(npw):
        p.append({"id": "p_w%d" % i, "kind": "flag", "flag": "c", "deps": []})
    if other:
        p.append({"id": "p_d", "kind": "flag", "flag": "d", "deps": []})
    q = [{"id": "q_n", "kind": "nop", "deps": []}]
    for i in range(nqw):
        q.append({"id": "q_w%d" % i, "kind": "flag", "flag": "c", "deps": []})
    # edge patterns among p's statements
    if pattern == 1:     # chain
        for a, b in zip(p[1:], p[:-1]):
            a["deps"].append(b["id"])
    elif pattern == 2:   # switch depends on everything
        p[0]["deps"] = [s["id"] for s in p[1:]]
    elif pattern == 3 and len(p) >= 2:   # 2-cycle
        p[0]["deps"].append(p[1]["id"])
        p[1]["deps"].append(p[0]["id"])
    spec["phases"]["p"] = p
    spec["phases"]["q"] = q
    return spec


FAMILIES = {
    "one_phase_3": lambda preset: family_graph([("p", 3)], {0, 1, 2}, preset),
    "two_phases_2_1": lambda preset: family_graph([("p", 2), ("q", 1)], {0}, preset),
    "one_phase_4": lambda preset: family_graph([("p", 4)], set(), preset),
    "two_phases_2_2": lambda preset: family_graph([("p", 2), ("q", 2)], {0}, preset),
    "misc": family_misc,
}


def work(item):
    fam = FAMILIES[item["family"]]
    preset = item.get("preset", {})
    tr = common.FunctionTrace()
    tr.start()
    ex = Explorer(timeout_ms=10000, max_paths=200000, max_decisions=64)
    cands, samples = [], []
    counts = {"accepted": 0, "rejected": 0}

    def h(ex):
        spec = fam(preset)
        ex.stats.obligations += 1
        bad = judge(spec)
        if bad is None:
            ex.stats.discharged += 1
        else:
            ex.stats.refuted += 1
        return spec, bad

    res = ex.explore(h)
    nontrivial = 0
    for trail, (spec, bad) in res:
        if bad is not None:
            cands.append({"spec": spec, "problem": bad})
        if any(s["deps"] for st in spec["phases"].values() for s in st):
            nontrivial += 1
        if len(samples) < 1 and nontrivial > 3:
            samples.append({"spec": spec, "oracle": well_formed(spec) or "well-formed"})
    tr.stop()
    if not ex.complete:
        raise common.HarnessError("C10 family %s incomplete" % item["family"])
    return {"stats": ex.stats.as_dict(), "candidates": cands, "evaluations": len(res),
            "distinct_nontrivial": nontrivial, "samples": samples, "functions": sorted(tr.seen)}


def work_random(item):
    rng = random.Random(item["seed"])
    tr = common.FunctionTrace()
    tr.start()
    from vf.symx import Stats
    st = Stats()
    cands = []
    n = 0
    for _ in range(item["count"]):
        nst = rng.randint(5, 8)
        nph = rng.choice([1, 2, 3])
        names = ["p", "q", "r"][:nph]
        spec = {"phases": {p: [] for p in names}, "initial": "p"}
        ids = []
        for i in range(nst):
            p = rng.choice(names)
            ids.append((p, "%s_s%d" % (p, i)))
        mode = rng.random()
        for k, (p, i) in enumerate(ids):
            deps = []
            for k2, (p2, i2) in enumerate(ids):
                if mode < 0.5:
                    # mostly well-formed: only backward in-phase edges
                    if k2 < k and p2 == p and rng.random() < 0.4:
                        deps.append(i2)
                else:
                    if rng.random() < 0.12:
                        deps.append(i2)
            if mode >= 0.8 and rng.random() < 0.1:
                deps.append(GHOST)
            kind = "nop"
            s = {"id": i, "kind": kind, "deps": deps}
            r = rng.random()
            if r < 0.15:
                s["kind"] = "switch"
                s["target"] = rng.choice(names + (["missing"] if mode >= 0.5 else []))
            elif r < 0.3:
                s["kind"] = "flag"
                s["flag"] = rng.choice(["c", "d", "e"] if mode < 0.5 else ["c"])
                if mode < 0.5 and any(x["kind"] == "flag" and x["flag"] == s["flag"] for x in spec["phases"][p]):
                    s["kind"] = "nop"
            spec["phases"][p].append(s)
        st.obligations += 1
        bad = judge(spec)
        n += 1
        if bad is None:
            st.discharged += 1
        else:
            st.refuted += 1
            cands.append({"spec": spec, "problem": bad})
    tr.stop()
    return {"stats": st.as_dict(), "candidates": cands, "evaluations": n,
            "distinct_nontrivial": n, "samples": [], "functions": sorted(tr.seen)}


def replay(d):
    bad = judge(d["spec"])
    return {"reproduced": bad is not None, "detail": "%s on %s" % (bad, d["spec"])}


def classify(c, r, open_known):
    return None


def selftests():
    import dagrt.codegen.analysis as A
    res = {}
    orig = A.verify_single_definition_cond_rule

    def bad(statements, errors):
        return None
    A.verify_single_definition_cond_rule = bad
    try:
        spec = {"phases": {"p": [{"id": "a", "kind": "flag", "flag": "c", "deps": []},
                                 {"id": "b", "kind": "flag", "flag": "c", "deps": []}]}, "initial": "p"}
        res["fault_no_flag_rule_detected"] = judge(spec) is not None
    finally:
        A.verify_single_definition_cond_rule = orig
    orig2 = A.verify_no_circular_dependencies

    def bad2(statements, errors):
        return None
    A.verify_no_circular_dependencies = bad2
    try:
        spec = {"phases": {"p": [{"id": "a", "kind": "nop", "deps": ["b"]},
                                 {"id": "b", "kind": "nop", "deps": ["a"]}]}, "initial": "p"}
        r = run_real(spec, downstream=False)
        res["fault_no_cycle_check_detected"] = bool(r["accepted"]) and bool(well_formed(spec))
    finally:
        A.verify_no_circular_dependencies = orig2
    good = {"phases": {"p": [{"id": "a", "kind": "nop", "deps": []},
                             {"id": "b", "kind": "nop", "deps": ["a"]}]}, "initial": "p"}
    res["baseline_accepts_chain"] = judge(good) is None
    return res


def presets(bits, k):
    """All assignments to the first k of the named bits (work partition)."""
    names = bits[:k]
    for vals in itertools.product([False, True], repeat=len(names)):
        yield dict(zip(names, vals))


def main(tier, seed):
    run = Run(PID, tier, seed, "exploration")
    items = []
    fams = ["one_phase_3", "two_phases_2_1", "misc"]
    if tier == "thorough":
        fams += ["one_phase_4", "two_phases_2_2"]
    for f in fams:
        if f == "misc":
            items.append({"family": f})
            continue
        n = {"one_phase_3": 3, "two_phases_2_1": 3, "one_phase_4": 4, "two_phases_2_2": 4}[f]
        bits = ["e_%d_%d" % (a, b) for a in range(n) for b in range(n)]
        k = 4 if n == 3 else 7
        for p in presets(bits, k):
            items.append({"family": f, "preset": p})
    for part in pmap("vf.checks.c10", "work", items):
        run.absorb(part)
    nrand = 600 if tier == "quick" else 30000
    ritems = [{"seed": seed * 1000 + i, "count": nrand // common.NPROC} for i in range(common.NPROC)]
    for part in pmap("vf.checks.c10", "work_random", ritems):
        run.absorb(part)
    run.bounds = {"families": fams, "edge_bits": "all ordered pairs incl. self-loops and cross-phase; ghost (dangling) edges",
                  "random_graphs": nrand, "random_graph_size": "5..8 statements, 1..3 phases",
                  "termination_budget_s": 10}
    run.selftests = selftests()
    if not all(run.selftests.values()):
        run.harness_errors.append("self-test failed: %r" % run.selftests)
    run.assumptions = [
        "statement ids are unique within a method; statements are Nop, SwitchPhase and flag assignments",
        "well-formedness oracle (same-phase targets, Kahn acyclicity, switch targets, single flag definition per phase) in vf/checks/c10.py",
        "'never hangs' is checked with a 10 s CPU-time alarm per method",
        "this property has no data dimension after the shape is fixed: the solver only realises the choice bits (bounded-exhaustive exploration)",
    ]
    return run.finish(
        rule="edge relations enumerated as explorer choice bits: one phase N=3 with self-loops and ghost edges (4096), two phases 2+1 with cross-phase "
             "edges (1024), switch-target x flag-writer x edge-pattern family (216)%s, plus seeded random graphs on 5..8 statements; non-trivial = at least one edge"
             % (", one phase N=4 (65536), two phases 2+2 (131072)" if tier == "thorough" else ""),
        explanation="real verify_code vs independent oracle on every shape; accepted methods run through interpreter, lowering, Python and Fortran generators",
        exhaustive=True, classify=classify)
