"""C20 -- line wrapping of generated code changes layout only.

Part 1 (solver): the CURRENT source of wrap_line_base, pad_python and
pad_fortran is fetched with inspect, `len(x)` is rewritten to `__sym_len(x)`
(nothing else) and the functions run natively on abstract strings: ropes of
segments (literal | token_i | n blanks) whose lengths are z3 integers.  Token
lengths (1..200), indentation level (0..8) and width (8..132) are symbolic; the
tokenizer is a stub returning n abstract tokens (n <= 6).  Per path z3 proves:
every produced line holding more than one token fits the width; structural:
token order preserved, every non-final line ends with the continuation marker
as its last character, continuation lines start with the extra indentation.

Part 2 (characters; bounded enumeration, labelled as such): the REAL
shlex-based tokenisation on concrete lines -- all strings of <= 6 characters
over {a, blank, ', ", =, (} that are lexable, and every line the two generators
emit for the PG corpus, at widths that force wrapping: no token boundary inside
a quoted region and quoted regions unchanged; for Python lines
ast.dump(parse(wrapped)) == ast.dump(parse(unwrapped))."""
import ast
import inspect
import itertools
import random
import textwrap

import z3

from vf import common, pg, symx
from vf.common import Run, pmap, chunks
from vf.symx import Explorer, SymNum

PID = "C20"


class AStr:
    """Abstract string: list of segments (kind, payload, length term)."""

    def __init__(self, segs):
        self.segs = list(segs)

    @staticmethod
    def of(x):
        if isinstance(x, AStr):
            return x
        if isinstance(x, str):
            return AStr([("lit", x, z3.IntVal(len(x)))] if x else [])
        raise symx.Unmodelled("AStr.of(%r)" % (x,))

    def __add__(self, o):
        return AStr(self.segs + AStr.of(o).segs)

    def __radd__(self, o):
        return AStr(AStr.of(o).segs + self.segs)

    def slen(self):
        t = z3.IntVal(0)
        for k, p, n in self.segs:
            t = t + n
        return SymNum(z3.simplify(t))

    def tokens(self):
        return [p for k, p, n in self.segs if k == "tok"]

    # content equality of abstract strings: decided structurally except for two different abstract
    # tokens, whose equality is a symbolic input (equal tokens have equal lengths)
    __hash__ = None

    def __eq__(self, o):
        if isinstance(o, str):
            o = AStr.of(o)
        if not isinstance(o, AStr):
            return NotImplemented
        if len(self.segs) == 1 and len(o.segs) == 1 and self.segs[0][0] == "tok" and o.segs[0][0] == "tok":
            i, j = self.segs[0][1], o.segs[0][1]
            if i == j:
                return True
            a, b = min(i, j), max(i, j)
            e = z3.Bool("tokeq_%d_%d" % (a, b))
            ex = symx.cur()
            ex.assume(z3.Implies(e, self.segs[0][2] == o.segs[0][2]))
            return ex.branch(e)
        if [(k, p) for k, p, n in self.segs] == [(k, p) for k, p, n in o.segs]:
            return True
        raise symx.Unmodelled("equality of compound abstract strings")

    def __ne__(self, o):
        r = self.__eq__(o)
        return r if r is NotImplemented else not r

    def __repr__(self):
        return "AStr(%s)" % " ".join("%s:%s" % (k, p if k != "sp" else z3.simplify(n)) for k, p, n in self.segs)


def sym_len(x):
    if isinstance(x, AStr):
        return x.slen()
    return len(x)


def _symnum_mul_str(self, o):
    if isinstance(o, str):
        n = z3.If(self.t > 0, self.t, 0)
        if o == " ":
            return AStr([("sp", None, n)])
        return AStr([("rep", o, n * len(o))])
    return None


_orig_mul, _orig_rmul = SymNum.__mul__, SymNum.__rmul__


def install_str_mul():
    def mul(self, o):
        r = _symnum_mul_str(self, o)
        return r if r is not None else _orig_mul(self, o)

    def rmul(self, o):
        r = _symnum_mul_str(self, o)
        return r if r is not None else _orig_rmul(self, o)
    SymNum.__mul__ = mul
    SymNum.__rmul__ = rmul


def lift_function(fn):
    """Recompile fn from its CURRENT source with len() -> __sym_len()."""
    src = textwrap.dedent(inspect.getsource(fn))
    tree = ast.parse(src)

    class T(ast.NodeTransformer):
        def visit_Call(self, node):
            self.generic_visit(node)
            if isinstance(node.func, ast.Name) and node.func.id == "len":
                node.func = ast.Name("__sym_len", ast.Load())
            return node
    tree = ast.fix_missing_locations(T().visit(tree))
    g = dict(fn.__globals__)
    g["__sym_len"] = sym_len
    exec(compile(tree, inspect.getsourcefile(fn), "exec"), g)
    return g[fn.__name__]


def targets():
    import dagrt.codegen.utils as U
    import dagrt.codegen.python as P
    import dagrt.codegen.fortran as F
    return {"python": (lift_function(U.wrap_line_base), lift_function(P.pad_python), "    ", "\\"),
            "fortran": (lift_function(U.wrap_line_base), lift_function(F.pad_fortran), " ", "&")}


def harness(target, ntok):
    wrap, pad, indentation, marker = targets()[target]

    def h(ex):
        lens = [z3.Int("toklen%d" % i) for i in range(ntok)]
        level = SymNum(z3.Int("level"))
        width = SymNum(z3.Int("width"))
        for l in lens:
            ex.assume(z3.And(l >= 1, l <= 200))
        ex.assume(z3.And(level.t >= 0, level.t <= 8, width.t >= 8, width.t <= 132))
        toks = [AStr([("tok", i, lens[i])]) for i in range(ntok)]
        try:
            lines = wrap("stubbed", level=level, width=width, indentation=indentation, pad_func=pad,
                         lex_func=lambda s: list(toks))
        except (symx.Abort, symx.Unmodelled, symx.BudgetExceeded):
            raise
        except Exception as e:  # noqa
            return {"problem": "wrap_line_base raised %s: %s" % (type(e).__name__, e), "model": ex.path_model()}
        lines = [AStr.of(l) for l in lines]
        seq = [t for l in lines for t in l.tokens()]
        if seq != list(range(ntok)):
            return {"problem": "token order %s, expected %s" % (seq, list(range(ntok))), "model": ex.path_model()}
        ind_len = level.t * len(indentation)
        for k, l in enumerate(lines):
            last = k == len(lines) - 1
            if not last:
                if not l.segs or l.segs[-1][0] != "lit" or not l.segs[-1][1].endswith(marker):
                    return {"problem": "line %d of %d does not end with the continuation marker: %r" % (k, len(lines), l), "model": ex.path_model()}
            if k > 0:
                if not l.segs or l.segs[0][0] != "lit" or not l.segs[0][1].startswith(indentation):
                    return {"problem": "continuation line %d does not start with the extra indentation: %r" % (k, l), "model": ex.path_model()}
            if len(l.tokens()) > 1:
                v, m = ex.prove(ind_len + l.slen().t <= width.t)
                if v == "refuted":
                    return {"problem": "line %d (%r) with %d tokens exceeds the width" % (k, l, len(l.tokens())), "model": m}
            if len(l.tokens()) == 0:
                return {"problem": "line %d holds no token: %r" % (k, l), "model": ex.path_model()}
        return None
    return h


def work_sym(item):
    install_str_mul()
    tr = common.FunctionTrace()
    tr.start()
    from vf.symx import Stats
    st = Stats()
    cands, samples = [], []
    for target, ntok in item["jobs"]:
        ex = Explorer(timeout_ms=10000, max_paths=5000, max_decisions=100)
        res = ex.explore(harness(target, ntok))
        st.add(ex.stats)
        for trail, r in res:
            if r is not None:
                m = r["model"]
                conc = None
                if m is not None:
                    conc = {"lens": [m.eval(z3.Int("toklen%d" % i), model_completion=True).as_long() for i in range(ntok)],
                            "equal": [[i, j] for i in range(ntok) for j in range(i + 1, ntok)
                                      if z3.is_true(m.eval(z3.Bool("tokeq_%d_%d" % (i, j)), model_completion=False))],
                            "level": m.eval(z3.Int("level"), model_completion=True).as_long(),
                            "width": m.eval(z3.Int("width"), model_completion=True).as_long()}
                cands.append({"part": "lengths", "target": target, "ntok": ntok, "problem": r["problem"], "values": conc})
                break
        samples.append({"target": target, "tokens": ntok, "paths": ex.stats.paths})
    tr.stop()
    return {"stats": st.as_dict(), "candidates": cands, "evaluations": len(item["jobs"]),
            "distinct_nontrivial": len(item["jobs"]), "samples": samples[:2], "functions": sorted(tr.seen)}


# ---------------------------------------------------------------------------
# part 2: characters

def quoted_regions(s):
    """Scanner oracle: list of (start, end) of quoted regions ('...' or "...",
    backslash escapes inside).  None if a quote is left open."""
    out = []
    i = 0
    n = len(s)
    while i < n:
        c = s[i]
        if c in "'\"":
            j = i + 1
            while j < n and s[j] != c:
                if s[j] == "\\":
                    j += 1
                j += 1
            if j >= n:
                return None
            out.append((i, j + 1))
            i = j + 1
        else:
            i += 1
    return out


def wrapped(target, line, level, width, indentation=None):
    import dagrt.codegen.python as P
    import dagrt.codegen.fortran as F
    if target == "python":
        return P.wrap_line(line, level, width=width) if indentation is None else P.wrap_line(line, level, width=width, indentation=indentation)
    return F.wrap_line(line, level, width=width, indentation=" " if indentation is None else indentation)


def judge_line(target, line, level, width, indentation=None):
    """None or a problem description for one concrete line."""
    regs = quoted_regions(line)
    if regs is None:
        return None          # not a lexable line (open quote): outside the family
    try:
        lines = wrapped(target, line, level, width, indentation)
    except ValueError as e:
        # the scanner oracle found every quote closed (regs is not None): refusing the line is a failure on valid input
        return "wrap_line refuses a line whose quotes are all closed: ValueError: %s" % e
    except Exception as e:  # noqa
        return "wrap_line raised %s: %s" % (type(e).__name__, e)
    marker = "\\" if target == "python" else "&"
    extra = indentation if indentation is not None else ("    " if target == "python" else " ")
    parts = []
    for k, l in enumerate(lines):
        if k < len(lines) - 1:
            if not l.endswith(marker):
                return "line %d lacks the continuation marker" % k
            l = l[:-1].rstrip(" ")
        if k > 0:
            if not l.startswith(extra):
                return "continuation line %d lacks the extra indentation" % k
            l = l[len(extra):]
        parts.append(l)
    joined = " ".join(parts)
    # every quoted region of the input must occur unchanged, in order, in the joined output
    pos = 0
    for a, b in regs:
        q = line[a:b]
        k = joined.find(q, pos)
        if k < 0:
            return "quoted string %r is altered or split: wrapped lines %r" % (q, lines)
        pos = k + len(q)
    if "".join(joined.split()) != "".join(line.split()):
        return "non-blank characters changed: %r -> %r" % (line, lines)
    if target == "python" and len(lines) > 1:
        probe_u = "(" + line + ")" if False else line
        try:
            t0 = ast.dump(ast.parse(probe_u))
        except SyntaxError:
            return None
        try:
            t1 = ast.dump(ast.parse("\n".join(lines)))
        except SyntaxError as e:
            return "wrapped line does not parse: %s: %r" % (e.msg, lines)
        if t0 != t1:
            return "wrapped line parses to a different syntax tree: %r" % (lines,)
    if target == "python" and len(lines) == 1:
        try:
            t0 = ast.dump(ast.parse(line))
            t1 = ast.dump(ast.parse(lines[0]))
            if t0 != t1:
                return "re-joined line parses to a different syntax tree: %r -> %r" % (line, lines[0])
        except SyntaxError:
            pass
    return None


def quote_inside_word(line):
    """Known-finding matcher: some quote character does not start a
    whitespace-separated word."""
    regs = quoted_regions(line) or []
    for a, b in regs:
        if a > 0 and not line[a - 1].isspace():
            if " " in line[a:b]:
                return True
    return False


def work_chars(item):
    tr = common.FunctionTrace()
    tr.start()
    from vf.symx import Stats
    st = Stats()
    cands = []
    known = 0
    n = 0
    for target, line, level, width in item["cases"]:
        st.obligations += 1
        n += 1
        bad = judge_line(target, line, level, width)
        if bad is None:
            st.discharged += 1
        else:
            st.refuted += 1
            cands.append({"part": "chars", "target": target, "line": line, "level": level, "width": width, "problem": bad})
            continue
        # the OTHER back end right afterwards on the same line with the same level, width and indentation string
        # (the two wrap_line functions share wrap_line_base: what one call did must not leak into the next)
        other = "fortran" if target == "python" else "python"
        st.obligations += 1
        bad = judge_line(target, line, level, width, "  ") or judge_line(other, line, level, width, "  ")
        if bad is None:
            st.discharged += 1
        else:
            st.refuted += 1
            cands.append({"part": "chars", "target": target, "line": line, "level": level, "width": width, "shared_indentation": "  ",
                          "problem": "after wrapping the same line with the other back end (same arguments): " + bad})
    tr.stop()
    return {"stats": st.as_dict(), "candidates": cands, "evaluations": n, "distinct_nontrivial": n,
            "samples": [], "functions": sorted(tr.seen)}


def generated_lines():
    """Unwrapped lines the two generators would emit for the PG corpus:
    captured by a spy on wrap_line_base's input."""
    import dagrt.codegen.utils as U
    import dagrt.codegen.python as P
    import dagrt.codegen.fortran as F
    import functools
    seen = {"python": set(), "fortran": set()}

    def spy(target, orig):
        def w(line, *a, **k):
            seen[target].add(line)
            return orig(line, *a, **k)
        return w
    op, of = P.wrap_line, F.wrap_line
    P.wrap_line = spy("python", op)
    F.wrap_line = spy("fortran", of)
    try:
        import contextlib
        import io
        for prog in pg.corpus():
            try:
                dag, _ = pg.build_dag(prog)
                P.CodeGenerator(class_name="M")(dag)
            except Exception:  # noqa
                pass
        # component ids / messages with blanks, as a user may well write them
        import dagrt.language as L
        from pymbolic import var
        cb = L.CodeBuilder("main")
        cb.yield_state(var("<state>y") + 1, "my comp", var("<t>"), "final time")
        with cb.if_(var("<state>y"), ">", 3):
            cb.raise_(ValueError, "state  is too large, giving up")
        dag = L.DAGCode.from_phases_list([cb.as_execution_phase("main")], "main")
        P.CodeGenerator(class_name="M")(dag)
        try:
            with contextlib.redirect_stdout(io.StringIO()):
                F.CodeGenerator("m", user_type_map={"my comp": F.ArrayType((2,), F.BuiltinType("real*8"))})(dag)
        except Exception:  # noqa
            pass
    finally:
        P.wrap_line, F.wrap_line = op, of
    return seen


def char_cases(tier, seed):
    cases = []
    alpha = ["a", " ", "'", '"', "=", "(", "\\"]
    maxlen = 6 if tier == "quick" else 8
    for n in range(1, maxlen + 1):
        for t in itertools.product(alpha, repeat=n):
            s = "".join(t)
            if s != s.strip() or "  " in s and "'" not in s and '"' not in s:
                continue
            if quoted_regions(s) is None:
                continue
            for target in ("python", "fortran"):
                cases.append((target, s, 0, 8))
    gl = generated_lines()
    ngen = 0
    for target, lines in gl.items():
        for line in sorted(lines):
            if not line.strip():
                continue
            for width in (20, 40, 80):
                cases.append((target, line, 1, width))
                ngen += 1
    return cases, ngen


# ---------------------------------------------------------------------------

def replay(d):
    if d["part"] == "chars" and d.get("shared_indentation"):
        other = "fortran" if d["target"] == "python" else "python"
        ind = d["shared_indentation"]
        bad = judge_line(d["target"], d["line"], d["level"], d["width"], ind) or judge_line(other, d["line"], d["level"], d["width"], ind)
        return {"reproduced": bad is not None, "known_shape": False,
                "detail": "wrap_line(%r, level=%d, width=%d, indentation=%r) by the %s back end and then by the other one: %s"
                          % (d["line"], d["level"], d["width"], ind, d["target"], bad)}
    if d["part"] == "chars":
        bad = judge_line(d["target"], d["line"], d["level"], d["width"])
        return {"reproduced": bad is not None, "known_shape": quote_inside_word(d["line"]),
                "detail": "%s wrap_line(%r, level=%d, width=%d): %s" % (d["target"], d["line"], d["level"], d["width"], bad)}
    v = d.get("values")
    if not v:
        return {"reproduced": False, "detail": "no model"}
    # pairwise distinct tokens of the given lengths, except where the model says two tokens are equal
    toks = [("abcdefgh"[i % 8]) * n for i, n in enumerate(v["lens"])]
    for i, j in v.get("equal") or []:
        toks[j] = toks[i]
    import dagrt.codegen.utils as U
    import dagrt.codegen.python as P
    import dagrt.codegen.fortran as F
    pad = P.pad_python if d["target"] == "python" else F.pad_fortran
    ind = "    " if d["target"] == "python" else " "
    marker = "\\" if d["target"] == "python" else "&"
    try:
        lines = U.wrap_line_base("x", level=v["level"], width=v["width"], indentation=ind, pad_func=pad, lex_func=lambda s: list(toks))
    except Exception as e:  # noqa
        return {"reproduced": True, "detail": "wrap_line_base raised %s: %s for token lengths %s level %d width %d" % (type(e).__name__, e, v["lens"], v["level"], v["width"])}
    out = []
    for k, l in enumerate(lines):
        body = l
        if k < len(lines) - 1:
            if not l.endswith(marker):
                return {"reproduced": True, "detail": "line %d lacks the continuation marker: %r" % (k, lines)}
            body = l[:-1]
        ntok = len(body.split())
        if ntok > 1 and v["level"] * len(ind) + len(l) > v["width"]:
            return {"reproduced": True, "detail": "token lengths %s level %d width %d: line %r with %d tokens is %d wide" % (
                v["lens"], v["level"], v["width"], l, ntok, v["level"] * len(ind) + len(l))}
        out.extend(body.split())
    if out != toks:
        return {"reproduced": True, "detail": "token sequence changed: %s -> %s" % (toks, out)}
    return {"reproduced": False, "detail": "layout is fine on replay"}


def classify(c, r, open_known):
    for k in open_known:
        if k.get("matcher") == "quote_inside_word" and c.get("part") == "chars" and r.get("known_shape"):
            # narrow: a quoted string that contains a blank and does not start a word;
            # re-check with that shape removed: the line with every such string's blanks
            # replaced must pass
            line = c["line"]
            regs = quoted_regions(line) or []
            fixed = list(line)
            for a, b in regs:
                if a > 0 and not line[a - 1].isspace():
                    for i in range(a, b):
                        if fixed[i] == " ":
                            fixed[i] = "_"
            if judge_line(c["target"], "".join(fixed), c["level"], c["width"]) is None:
                return k["id"]
    return None


def selftests():
    import dagrt.codegen.utils as U
    import dagrt.codegen.python as P
    res = {}
    install_str_mul()
    ex = Explorer()
    r = ex.explore(harness("python", 3))
    res["baseline_3_tokens_ok"] = all(x is None for _, x in r) and len(r) >= 4
    src_orig = U.wrap_line_base
    src = inspect.getsource(U.wrap_line_base).replace("if next_len < width or", "if next_len <= width or")
    g = dict(U.__dict__)
    exec(src, g)
    U.wrap_line_base = g["wrap_line_base"]
    import linecache
    try:
        # lift from the modified source text directly
        tree = ast.parse(textwrap.dedent(src))

        class T(ast.NodeTransformer):
            def visit_Call(self, node):
                self.generic_visit(node)
                if isinstance(node.func, ast.Name) and node.func.id == "len":
                    node.func = ast.Name("__sym_len", ast.Load())
                return node
        tree = ast.fix_missing_locations(T().visit(tree))
        g2 = dict(U.__dict__)
        g2["__sym_len"] = sym_len
        exec(compile(tree, "<mutant>", "exec"), g2)
        wrap_mut = g2["wrap_line_base"]
        pad = lift_function(P.pad_python)

        def h(ex):
            lens = [z3.Int("toklen%d" % i) for i in range(3)]
            level, width = SymNum(z3.Int("level")), SymNum(z3.Int("width"))
            for l in lens:
                ex.assume(z3.And(l >= 1, l <= 200))
            ex.assume(z3.And(level.t >= 0, level.t <= 8, width.t >= 8, width.t <= 132))
            toks = [AStr([("tok", i, lens[i])]) for i in range(3)]
            lines = [AStr.of(l) for l in wrap_mut("x", level=level, width=width, indentation="    ", pad_func=pad, lex_func=lambda s: list(toks))]
            for l in lines:
                if len(l.tokens()) > 1 and not ex.valid(level.t * 4 + l.slen().t <= width.t):
                    return "bad"
            return None
        ex = Explorer()
        r = ex.explore(h)
        res["fault_off_by_one_detected"] = any(x is not None for _, x in r)
    finally:
        U.wrap_line_base = src_orig
    res["scanner_oracle_sane"] = quoted_regions("a 'b c' d") == [(2, 7)] and quoted_regions("a 'b") is None
    return res


def main(tier, seed):
    run = Run(PID, tier, seed, "other")
    maxtok = 5 if tier == "quick" else 7
    jobs = [(t, n) for t in ("python", "fortran") for n in range(1, maxtok + 1)]
    try:
        for part in pmap("vf.checks.c20", "work_sym", [{"jobs": [j]} for j in jobs]):
            run.absorb(part)
    except common.HarnessError as e:
        # e.g. the code under test hashes its arguments (a cache): proxies are not hashable.  The concrete part still runs.
        run.harness_errors.append("symbolic part: %s" % str(e)[-600:])
    cases, ngen = char_cases(tier, seed)
    for part in pmap("vf.checks.c20", "work_chars", [{"cases": c} for c in chunks(cases, common.NPROC * 2)]):
        run.absorb(part)
    run.bounds = {"tokens": "1..%d" % maxtok, "token_length": "1..200", "level": "0..8", "width": "8..132",
                  "char_strings": "all lexable strings of <= %d characters over {a, blank, ', \", =, (, backslash} at width 8" % (6 if tier == "quick" else 8),
                  "generated_lines_x_widths": ngen}
    try:
        run.selftests = selftests()
    except Exception as e:  # noqa
        run.selftests = {"selftests_ran": False}
        run.harness_errors.append("self-tests raised %s: %s" % (type(e).__name__, e))
    if not all(run.selftests.values()):
        run.harness_errors.append("self-test failed: %r" % run.selftests)
    run.extra["char_cases"] = len(cases)
    run.assumptions = [
        "part 1: the tokenizer is a stub returning n abstract tokens; lengths are mathematical integers; the lifted functions are recompiled from the current source with len() -> __sym_len() only",
        "part 2 is bounded enumeration of concrete strings (no solver): the scanner oracle treats '...' and \"...\" with backslash escapes as quoted regions; lines with an open quote are outside the family",
        "Fortran free-form rules are checked as: every non-final line ends with '&' as its last character and no quoted string is split",
    ]
    return run.finish(
        rule="part 1: (target, number of tokens) jobs, each exploring all layouts for all token lengths/levels/widths; part 2: %d concrete (target, line, level, width) cases; "
             "non-trivial = every job/case" % len(cases),
        explanation="lifted real wrap_line_base/pad_* on abstract strings with z3 lengths (one validity query per multi-token line) + concrete enumeration of the real shlex tokenisation",
        classify=classify)
