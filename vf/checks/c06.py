"""C06 -- simplify_ast never changes which leaves run, or their order.

For every tree shape of the family the REAL simplify_ast is run; input and
output tree are both turned into guarded traces [(leaf, guard formula)] by an
independent walker, and z3 decides -- for ALL valuations of the flags at once --
that the two traces are equal.  Any exception / non-termination of
simplify_ast is a candidate violation.  Candidates are replayed concretely
(one explicit valuation, plain Python booleans)."""
import itertools
import random
import sys
import time

import z3

from vf import common
from vf.common import Run, pmap, chunks
from vf.symx import Explorer

PID = "C06"

# ---------------------------------------------------------------------------
# tree DSL (JSON-serialisable):
#   ["L", k]                      leaf number k
#   ["N"]                         NullASTNode
#   ["B", t1, ..., tn]            Block (n >= 0)
#   ["I", cond, then]             IfThen
#   ["E", cond, then, else]       IfThenElse
# cond DSL: True | False | "c0" | ["not", cond]


def build_tree(t, leaves):
    from dagrt.codegen.dag_ast import (Block, IfThen, IfThenElse, NullASTNode,
                                       StatementWrapper)
    k = t[0]
    if k == "L":
        return StatementWrapper(leaves[t[1]])
    if k == "N":
        return NullASTNode()
    if k == "B":
        return Block(*[build_tree(c, leaves) for c in t[1:]])
    if k == "I":
        return IfThen(build_cond(t[1]), build_tree(t[2], leaves))
    if k == "E":
        return IfThenElse(build_cond(t[1]), build_tree(t[2], leaves),
                          build_tree(t[3], leaves))
    raise ValueError(t)


def build_cond(c):
    from pymbolic.primitives import LogicalNot, Variable
    if c is True or c is False:
        return c
    if isinstance(c, str):
        return Variable("<cond>" + c)
    if c[0] == "not":
        return LogicalNot(build_cond(c[1]))
    raise ValueError(c)


def make_leaves(n, same=False):
    from dagrt.language import Nop
    # same=True: the SAME leaf statement n times (the trace is then the number of leaves run)
    if same:
        return [Nop(id="leaf0")] * n
    return [Nop(id="leaf%d" % i) for i in range(n)]


def count_leaves(t):
    if t[0] == "L":
        return 1
    if t[0] in ("N",):
        return 0
    if t[0] == "B":
        return sum(count_leaves(c) for c in t[1:])
    if t[0] == "I":
        return count_leaves(t[2])
    return count_leaves(t[2]) + count_leaves(t[3])


# ---------------------------------------------------------------------------
# independent guarded-trace walker (works on dagrt AST objects by class NAME
# and attribute, not by dagrt's own mappers)

def cond_formula(c, flags):
    """pymbolic condition -> z3 Bool (flags: dict name -> z3 Bool)."""
    if c is True:
        return z3.BoolVal(True)
    if c is False:
        return z3.BoolVal(False)
    n = type(c).__name__
    if n == "Variable":
        if c.name not in flags:
            flags[c.name] = z3.Bool("flag_" + c.name)
        return flags[c.name]
    if n == "LogicalNot":
        return z3.Not(cond_formula(c.child, flags))
    if n == "LogicalAnd":
        return z3.And(*[cond_formula(x, flags) for x in c.children])
    if n == "LogicalOr":
        return z3.Or(*[cond_formula(x, flags) for x in c.children])
    raise ValueError("unexpected condition %r" % (c,))


def guarded_trace(node, flags, guard=None, out=None):
    if out is None:
        out = []
    if guard is None:
        guard = z3.BoolVal(True)
    n = type(node).__name__
    if n == "StatementWrapper":
        out.append((node.statement.id, guard))
    elif n == "NullASTNode":
        pass
    elif n == "Block":
        for ch in node.children:
            guarded_trace(ch, flags, guard, out)
    elif n == "IfThen":
        c = cond_formula(node.condition, flags)
        guarded_trace(node.then, flags, z3.And(guard, c), out)
    elif n == "IfThenElse":
        c = cond_formula(node.condition, flags)
        guarded_trace(node.then, flags, z3.And(guard, c), out)
        guarded_trace(node.else_, flags, z3.And(guard, z3.Not(c)), out)
    else:
        raise ValueError("unexpected node %s" % n)
    return out


def trace_difference(inp, out):
    """z3 formula: exists a valuation under which the traces differ.
    inp has pairwise distinct leaves."""
    b2i = lambda g: z3.If(g, 1, 0)  # noqa
    in_ids = [l for l, _ in inp]
    assert len(set(in_ids)) == len(in_ids)
    pos = {l: i for i, l in enumerate(in_ids)}
    bad = []
    for l, g in inp:
        occ = [h for m, h in out if m == l]
        bad.append(z3.Sum([b2i(h) for h in occ] + [z3.IntVal(0)]) != b2i(g))
    for m, h in out:
        if m not in pos:
            bad.append(h)  # a leaf that was not in the input may run
    for (j, (m1, h1)), (k, (m2, h2)) in itertools.combinations(enumerate(out), 2):
        if m1 in pos and m2 in pos and pos[m1] > pos[m2]:
            bad.append(z3.And(h1, h2))
    return z3.Or(*bad) if bad else z3.BoolVal(False)


def concrete_trace(node, val):
    """Plain-Python executor used for replay: val maps flag name -> bool."""
    n = type(node).__name__
    if n == "StatementWrapper":
        return [node.statement.id]
    if n == "NullASTNode":
        return []
    if n == "Block":
        r = []
        for ch in node.children:
            r.extend(concrete_trace(ch, val))
        return r
    if n == "IfThen":
        return concrete_trace(node.then, val) if concrete_cond(node.condition, val) else []
    if n == "IfThenElse":
        if concrete_cond(node.condition, val):
            return concrete_trace(node.then, val)
        return concrete_trace(node.else_, val)
    raise ValueError(n)


def concrete_cond(c, val):
    if c is True or c is False:
        return c
    n = type(c).__name__
    if n == "Variable":
        return val.get(c.name, False)
    if n == "LogicalNot":
        return not concrete_cond(c.child, val)
    if n == "LogicalAnd":
        return all(concrete_cond(x, val) for x in c.children)
    if n == "LogicalOr":
        return any(concrete_cond(x, val) for x in c.children)
    raise ValueError(c)


# ---------------------------------------------------------------------------
# shape enumeration

def shapes(n):
    """All tree shapes with exactly n nodes; leaves are ["L"], conditions are
    holes (None)."""
    if n <= 0:
        return
    if n == 1:
        yield ["L"]
        yield ["N"]
        yield ["B"]
        return
    # Block with k>=1 children using n-1 nodes
    for parts in compositions(n - 1):
        for kids in itertools.product(*[list(shapes(p)) for p in parts]):
            yield ["B"] + [k for k in kids]
    # IfThen
    for t in shapes(n - 1):
        yield ["I", None, t]
    # IfThenElse
    for a in range(1, n - 1):
        for t in shapes(a):
            for e in shapes(n - 1 - a):
                yield ["E", None, t, e]


_comp_cache = {}


def compositions(n):
    if n in _comp_cache:
        return _comp_cache[n]
    res = []
    if n == 0:
        res = [()]
    else:
        for first in range(1, n + 1):
            for rest in compositions(n - first):
                res.append((first,) + rest)
    _comp_cache[n] = res
    return res


def count_holes(t):
    if t[0] in ("L", "N"):
        return 0
    if t[0] == "B":
        return sum(count_holes(c) for c in t[1:])
    if t[0] == "I":
        return 1 + count_holes(t[2])
    return 1 + count_holes(t[2]) + count_holes(t[3])


def fill(t, conds, leafctr):
    """Fill holes (in pre-order) with conds (iterator), number leaves."""
    k = t[0]
    if k == "L":
        return ["L", next(leafctr)]
    if k == "N":
        return ["N"]
    if k == "B":
        return ["B"] + [fill(c, conds, leafctr) for c in t[1:]]
    if k == "I":
        c = next(conds)
        return ["I", c, fill(t[2], conds, leafctr)]
    c = next(conds)
    a = fill(t[2], conds, leafctr)
    b = fill(t[3], conds, leafctr)
    return ["E", c, a, b]


def cond_choices(nflags):
    out = [True, False]
    for i in range(nflags):
        f = "c%d" % i
        out += [f, ["not", f]]
    out.append(["not", ["not", "c0"]])
    return out


def canonical(cs):
    """flags must first appear in order c0, c1, ..."""
    nxt = 0
    for c in cs:
        while isinstance(c, list):
            c = c[1]
        if isinstance(c, str):
            i = int(c[1:])
            if i > nxt:
                return False
            if i == nxt:
                nxt += 1
    return True


def enumerate_trees(max_nodes, nflags):
    choices = cond_choices(nflags)
    for n in range(1, max_nodes + 1):
        for sh in shapes(n):
            h = count_holes(sh)
            for cs in itertools.product(choices, repeat=h):
                if not canonical(cs):
                    continue
                yield fill(sh, iter(cs), itertools.count())


def random_tree(rng, size, nflags):
    choices = cond_choices(nflags)
    ctr = itertools.count()

    def gen(budget, depth):
        if budget <= 1 or depth > 6:
            r = rng.random()
            if r < 0.7:
                return ["L", next(ctr)]
            if r < 0.85:
                return ["N"]
            return ["B"]
        r = rng.random()
        if r < 0.4:
            k = rng.randint(1, min(4, budget - 1))
            rest = budget - 1
            kids = []
            for i in range(k):
                b = max(1, rest // (k - i)) if i == k - 1 else rng.randint(1, max(1, rest - (k - i - 1)))
                rest -= b
                kids.append(gen(b, depth + 1))
            return ["B"] + kids
        if r < 0.6:
            return ["I", rng.choice(choices), gen(budget - 1, depth + 1)]
        a = rng.randint(1, max(1, budget - 2))
        return ["E", rng.choice(choices), gen(a, depth + 1),
                gen(max(1, budget - 1 - a), depth + 1)]

    return gen(size, 0)


# ---------------------------------------------------------------------------
# worker

class _Timeout(Exception):
    pass


def check_tree(ex, t, tracer_flags=None):
    """Returns None if OK, else a candidate dict."""
    from dagrt.codegen.dag_ast import simplify_ast
    nl = count_leaves(t)
    leaves = make_leaves(nl)
    tree = build_tree(t, leaves)
    flags = {}
    inp = guarded_trace(tree, flags)
    try:
        sys.setrecursionlimit(3000)
        out_tree = simplify_ast(tree)
    except Exception as e:  # noqa
        ex.stats.obligations += 1
        ex.stats.refuted += 1
        return {"tree": t, "kind": "exception", "exc": type(e).__name__}
    out = guarded_trace(out_tree, flags)
    verdict, model = ex.prove(z3.Not(trace_difference(inp, out)))
    if verdict == "unknown":
        return None  # counted as undecided in stats
    if verdict != "valid":
        val = {name: bool(z3.is_true(model.eval(b, model_completion=True)))
               for name, b in flags.items()}
        return {"tree": t, "kind": "trace", "valuation": val}
    if nl < 2:
        return None
    # second pass (after seeded change C06_r7): all leaves structurally equal, so that a rewrite which compares
    # branches for equality sees equal branches; the trace is then the NUMBER of leaves run, for every valuation
    tree2 = build_tree(t, make_leaves(nl, same=True))
    flags2 = {}
    inp2 = guarded_trace(tree2, flags2)
    try:
        out2 = guarded_trace(simplify_ast(tree2), flags2)
    except Exception as e:  # noqa
        ex.stats.obligations += 1
        ex.stats.refuted += 1
        return {"tree": t, "kind": "exception", "exc": type(e).__name__, "same_leaves": True}
    b2i = lambda g: z3.If(g, 1, 0)  # noqa
    cnt = lambda tr: z3.Sum([b2i(g) for _, g in tr] + [z3.IntVal(0)])  # noqa
    verdict, model = ex.prove(cnt(inp2) == cnt(out2))
    if verdict in ("valid", "unknown"):
        return None
    val = {name: bool(z3.is_true(model.eval(b, model_completion=True))) for name, b in flags2.items()}
    return {"tree": t, "kind": "trace", "valuation": val, "same_leaves": True}


def work(item):
    trees = item["trees"]
    ex = Explorer(timeout_ms=20000)
    tr = common.FunctionTrace()
    tr.start()
    cands = []
    samples = []
    nontrivial = 0
    seen = set()
    for t in trees:
        c = check_tree(ex, t)
        key = repr(t)
        if key not in seen:
            seen.add(key)
            if count_leaves(t) >= 1 and count_holes_filled(t) >= 1:
                nontrivial += 1
        if c is not None:
            cands.append(c)
        if len(samples) < 2 and count_leaves(t) >= 2:
            samples.append({"tree": t})
    tr.stop()
    return {"stats": ex.stats.as_dict(), "candidates": cands,
            "evaluations": len(trees), "distinct_nontrivial": nontrivial,
            "samples": samples, "functions": sorted(tr.seen)}


def count_holes_filled(t):
    if t[0] in ("L", "N"):
        return 0
    if t[0] == "B":
        return sum(count_holes_filled(c) for c in t[1:])
    if t[0] == "I":
        return 1 + count_holes_filled(t[2])
    return 1 + count_holes_filled(t[2]) + count_holes_filled(t[3])


# ---------------------------------------------------------------------------
# replay (concrete, unmodified API)

def replay(d):
    from dagrt.codegen.dag_ast import simplify_ast
    t = d["tree"]
    leaves = make_leaves(count_leaves(t), same=bool(d.get("same_leaves")))
    tree = build_tree(t, leaves)
    try:
        out = simplify_ast(tree)
    except Exception as e:  # noqa
        return {"reproduced": True,
                "detail": "simplify_ast raised %s: %s on tree %s" % (type(e).__name__, e, t)}
    if d["kind"] == "exception":
        return {"reproduced": False, "detail": "no exception on replay"}
    val = d["valuation"]
    a = concrete_trace(tree, val)
    b = concrete_trace(out, val)
    if a != b:
        return {"reproduced": True,
                "detail": "tree %s, valuation %s: input runs %s, simplified runs %s" % (t, val, a, b)}
    return {"reproduced": False, "detail": "traces equal on replay"}


def classify(c, r, open_known):
    return None


# ---------------------------------------------------------------------------
# self tests: vacuity / sensitivity (in-memory faults of the real code)

def selftests():
    """Seeded in-memory faults that must turn the check red, and a
    reachability twin.  Returns dict name -> bool (True = behaved)."""
    import dagrt.codegen.dag_ast as D
    res = {}
    ex = Explorer()
    sample = [t for t in enumerate_trees(4, 2)]
    # twin: asserting `false` must be refuted
    v, _ = ex.prove(z3.BoolVal(False))
    res["twin_false_is_refuted"] = (v == "refuted")
    # fault 1: drop the then/else swap on LogicalNot
    orig = D.ASTSimplifyMapper.map_IfThenElse

    def bad_ite(self, expr):
        from pymbolic.primitives import LogicalNot
        if expr.condition is True:
            return self.rec(expr.then)
        elif expr.condition is False:
            return self.rec(expr.else_)
        condition = expr.condition
        then = self.rec(expr.then)
        else_ = self.rec(expr.else_)
        while isinstance(condition, LogicalNot):
            condition = condition.child
        return D.IfThenElse(condition, then, else_)
    D.ASTSimplifyMapper.map_IfThenElse = bad_ite
    try:
        res["fault_no_swap_detected"] = any(
            check_tree(ex, t) is not None for t in sample)
    finally:
        D.ASTSimplifyMapper.map_IfThenElse = orig
    # fault 2: post pass drops else branch when then is null
    orig2 = D.ASTPostSimplifyMapper.map_IfThenElse

    def bad_post(self, expr):
        then = self.rec(expr.then)
        else_ = self.rec(expr.else_)
        if isinstance(then, D.NullASTNode):
            return D.NullASTNode()
        if isinstance(else_, D.NullASTNode):
            return D.IfThen(expr.condition, then)
        return D.IfThenElse(expr.condition, then, else_)
    D.ASTPostSimplifyMapper.map_IfThenElse = bad_post
    try:
        res["fault_drop_else_detected"] = any(
            check_tree(ex, t) is not None for t in sample)
    finally:
        D.ASTPostSimplifyMapper.map_IfThenElse = orig2
    return res


# ---------------------------------------------------------------------------

def main(tier, seed):
    run = Run(PID, tier, seed, "other")
    if tier == "quick":
        max_nodes, nflags, nrand, rsize = 5, 2, 400, 14
    else:
        max_nodes, nflags, nrand, rsize = 6, 2, 40000, 24
    run.bounds = {"max_nodes_exhaustive": max_nodes, "flags": nflags,
                  "conditions": [str(c) for c in cond_choices(nflags)],
                  "random_trees": nrand, "random_tree_size": rsize}
    trees = list(enumerate_trees(max_nodes, nflags))
    n_exh = len(trees)
    rng = random.Random(seed)
    for _ in range(nrand):
        trees.append(random_tree(rng, rng.randint(6, rsize), 3))
    parts = chunks(trees, common.NPROC * 4)
    for part in pmap("vf.checks.c06", "work", [{"trees": p} for p in parts]):
        run.absorb(part)
    run.selftests = selftests()
    if not all(run.selftests.values()):
        run.harness_errors.append("self-test failed: %r" % run.selftests)
    run.extra["exhaustive_trees"] = n_exh
    run.assumptions = [
        "second pass per tree with all leaves structurally equal (trace = number of leaves run per valuation); "
        "leaf statements are opaque and do not assign condition flags "
        "(the single-definition rule for <cond> flags, C10, makes this true for builder output)",
        "conditions are flags, negated flags (single/double) or the constants True/False",
        "the guarded-trace walker in vf/checks/c06.py is the reference semantics of the tree language",
    ]
    return run.finish(
        rule="all trees over {Block,IfThen,IfThenElse,Null,leaf} with <= %d nodes "
             "and conditions from %d choices (flags introduced in canonical order), "
             "plus %d seeded random trees of <= %d nodes; non-trivial = has >= 1 leaf and "
             ">= 1 conditional node; distinct by structure" % (max_nodes, len(cond_choices(nflags)), nrand, rsize),
        explanation="per tree: real simplify_ast run, then ONE z3 query decides trace equality "
                    "for all flag valuations (obligation = one tree); exceptions are violations; "
                    "bounded enumeration of shapes x solver-decided valuations",
        exhaustive=False)
