"""C04 -- each step runs every statement of the phase once, after its
dependencies.

The REAL ExecutionController (reset / update_plan / __call__) is driven through
the REAL NumpyInterpreter.run_single_step by a recording subclass whose
evaluate_condition returns a fresh symbolic boolean per statement and step.
Symbolic inputs: every guard outcome, the iteration order of every depends_on
set and of the sink set (ranked containers), and -- for the dynamic clause --
which statements a running statement requests.  Enumerated: the acyclic edge
relation (edges i -> j only for j < i: since iteration order is symbolic, the
labelling carries no information)."""
import itertools

import z3

from vf import common, ranked, symx
from vf.common import Run, pmap
from vf.symx import Explorer, SymBool

PID = "C04"


def make_world(n, edges, log, requests):
    """Build phase/DAG/interpreter.  requests: dict step -> list of request
    descriptors consumed by exec callbacks (see harness)."""
    import dagrt.language as L
    from dagrt.exec_numpy import NumpyInterpreter

    ids = ["s%d" % i for i in range(n)]
    stmts = []
    for i in range(n):
        s = L.Nop(id=ids[i])
        s.depends_on = ranked.RankedFS(ids[j] for j in range(n) if (i, j) in edges)
        stmts.append(s)

    class Phase(L.ExecutionPhase):
        @property
        def depends_on(self):
            # stub: the sink set is a raw set comprehension in dagrt; re-wrap
            # it so that its iteration order is symbolic as well
            return ranked.RankedFS(L.ExecutionPhase.depends_on.fget(self))

    ph = Phase(name="p", next_phase="p", statements=stmts)
    dag = L.DAGCode({"p": ph}, "p")

    class Rec(NumpyInterpreter):
        step = 0

        def evaluate_condition(self, stmt):
            ex = symx.cur()
            g = bool(SymBool(z3.Bool("guard_%s_step%d" % (stmt.id, self.step))))
            log.append(("cond", stmt.id, g, self.step))
            return g

        def exec_Nop(self, stmt):
            log.append(("exec", stmt.id, None, self.step))
            req = requests(stmt.id, self.step)
            if req is not None:
                log.append(("request", stmt.id, tuple(req), self.step))
                return None, req
            return None

    return ids, dag, Rec(dag, function_map={})


def make_world_kinds(n, edges, log, rot):
    """Hand-written statements of every kind the interpreter executes without
    leaving the step (Nop, Assign, YieldState), each guarded by a persistent
    flag whose value is symbolic; the REAL evaluate_condition / exec_* run and
    are only wrapped for recording."""
    import dagrt.language as L
    from dagrt.exec_numpy import NumpyInterpreter
    from pymbolic.primitives import Variable, LogicalNot

    ids = ["s%d" % i for i in range(n)]
    stmts = []
    for i in range(n):
        kind = (i + rot) % 3
        deps = ranked.RankedFS(ids[j] for j in range(n) if (i, j) in edges)
        cond = Variable("<p>g%d" % i)
        if (i + rot) % 2:
            cond = LogicalNot(cond)
        if i == n - 1:
            cond = None      # unguarded: constructed without a condition argument
        kw = {} if cond is None else {"condition": cond}
        if kind == 0:
            s = L.Nop(id=ids[i], **kw)
        elif kind == 1:
            s = L.Assign(assignee="tmp%d" % i, assignee_subscript=(), expression=1, id=ids[i], **kw)
        else:
            s = L.YieldState(expression=1, component_id="c", time=0, time_id="t", id=ids[i], **kw)
        s.depends_on = deps
        stmts.append(s)

    class Phase(L.ExecutionPhase):
        @property
        def depends_on(self):
            return ranked.RankedFS(L.ExecutionPhase.depends_on.fget(self))

    ph = Phase(name="p", next_phase="p", statements=stmts)
    dag = L.DAGCode({"p": ph}, "p")

    class Rec(NumpyInterpreter):
        step = 0

        def evaluate_condition(self, stmt):
            g = bool(NumpyInterpreter.evaluate_condition(self, stmt))
            log.append(("cond", stmt.id, g, self.step))
            return g

        def exec_Nop(self, stmt):
            log.append(("exec", stmt.id, None, self.step))
            return NumpyInterpreter.exec_Nop(self, stmt)

        def exec_Assign(self, stmt):
            log.append(("exec", stmt.id, None, self.step))
            return NumpyInterpreter.exec_Assign(self, stmt)

        def exec_YieldState(self, stmt):
            log.append(("exec", stmt.id, None, self.step))
            return NumpyInterpreter.exec_YieldState(self, stmt)

    it = Rec(dag, function_map={})
    for i in range(n):
        it.context["<p>g%d" % i] = SymBool(z3.Bool("flag_g%d" % i))
    return ids, dag, it


def closure_unvisited(req, deps, visited):
    out = set()
    stack = [r for r in req]
    while stack:
        x = stack.pop()
        if x in visited or x in out:
            continue
        out.add(x)
        stack.extend(deps[x])
    return out


def judge(ids, edges, log, nsteps, abandoned=()):
    """Pure-Python oracle over a concrete callback log.  Returns None or a
    description.  abandoned: steps whose events the caller stopped reading (only the prefix clauses apply to them)."""
    n = len(ids)
    deps = {ids[i]: [ids[j] for j in range(n) if (i, j) in edges] for i in range(n)}
    for step in range(nsteps):
        ev = [e for e in log if e[3] == step]
        visited = []
        pending_cond = None
        must_next = None   # set of ids that must be visited next (dynamic clause)
        for e in ev:
            kind, sid = e[0], e[1]
            if kind == "cond":
                if pending_cond is not None and pending_cond[2]:
                    return "step %d: %s had a true guard but was not executed" % (step, pending_cond[1])
                if sid in visited:
                    return "step %d: %s visited twice" % (step, sid)
                for d in deps[sid]:
                    if d not in visited:
                        return "step %d: %s visited before its dependency %s" % (step, sid, d)
                if must_next is not None and must_next:
                    if sid not in must_next:
                        return ("step %d: %s ran although requested statements %s (with dependencies) were still unvisited"
                                % (step, sid, sorted(must_next)))
                    must_next.discard(sid)
                visited.append(sid)
                pending_cond = e
            elif kind == "exec":
                if pending_cond is None or pending_cond[1] != sid:
                    return "step %d: exec of %s without its guard evaluation just before" % (step, sid)
                if not pending_cond[2]:
                    return "step %d: %s executed although its guard was false" % (step, sid)
                pending_cond = None
            elif kind == "request":
                req = e[2]
                must_next = closure_unvisited(req, deps, set(visited))
        if step in abandoned:
            continue
        if pending_cond is not None and pending_cond[2]:
            return "step %d: %s had a true guard but was not executed" % (step, pending_cond[1])
        if sorted(visited) != sorted(ids):
            return "step %d: visited %s, expected every statement once %s" % (step, visited, ids)
    return None


def harness(n, edges, mode, nsteps):
    """mode: 'static' | 'dyn1' | 'dyn2'"""
    def h(ex):
        ranked.reset()
        log = []
        budget = {"left": {"static": 0, "dyn1": 1, "dyn2": 2}.get(mode, 0)}
        made = []

        def requests(sid, step):
            if budget["left"] <= 0 or step != 0:
                return None
            k = len(made)
            if not bool(SymBool(z3.Bool("does_request_%s_%d" % (sid, k)))):
                return None
            budget["left"] -= 1
            req = [i for i in ids if bool(SymBool(z3.Bool("req_%s_%s_%d" % (sid, i, k))))]
            made.append((sid, req))
            # the order in which requested ids are presented is symbolic too
            return list(ranked.RankedFS(req))

        if mode.startswith("kinds"):
            ids, dag, it = make_world_kinds(n, edges, log, int(mode[5:]))
        else:
            ids, dag, it = make_world(n, edges, log, requests)
        if mode == "dyn2":
            # two-request harness: all guards true in step 0 (guards x one
            # request are covered by 'dyn1', guards alone by 'static')
            for i in ids:
                ex.assume(z3.Bool("guard_%s_step0" % i))
        it.set_up(t_start=0, dt_start=1, context={})
        err = None
        abandoned = set()
        kept_alive = []
        nread = {"k": None}
        try:
            for step in range(nsteps):
                it.step = step
                gen = it.run_single_step()
                if mode.startswith("kinds") and step == 0 and bool(SymBool(z3.Bool("caller_abandons_step0"))):
                    # the caller reads k events of step 0 and then stops reading, keeping the generator object alive
                    # (a consumer that leaves its loop early); the NEXT step must still visit every statement once
                    k = ex.choice(3, "events_read")
                    nread["k"] = k
                    done = False
                    for _ in range(k):
                        try:
                            next(gen)
                        except StopIteration:
                            done = True
                            break
                    if not done:
                        kept_alive.append(gen)
                        abandoned.add(step)
                        continue
                for _ in gen:
                    pass
        except (symx.Abort, symx.Unmodelled, symx.BudgetExceeded):
            raise
        except symx.PathTimeout:
            err = "the step did not end within %d s (%d callbacks so far)" % (ex.path_timeout_s, len(log))
            ex.abort_all = True
            log[:] = log[:40]
        except Exception as e:  # noqa
            err = "%s: %s" % (type(e).__name__, str(e)[:100])
        ex.stats.obligations += 1
        bad = err or judge(ids, edges, log, nsteps, abandoned)
        if bad is None:
            ex.stats.discharged += 1
            return None
        ex.stats.refuted += 1
        # concretise this path: guards, orders, requests are all fixed by the
        # path decisions; the log itself is the concrete witness
        return {"n": n, "edges": sorted(edges), "mode": mode, "nsteps": nsteps, "problem": bad,
                "guards": {"%s@%d" % (e[1], e[3]): e[2] for e in log if e[0] == "cond"},
                "visit_order": [(e[1], e[3]) for e in log if e[0] == "cond"],
                "requests": [(e[1], list(e[2]), e[3]) for e in log if e[0] == "request"],
                "dep_orders": _orders(ids, edges, ex), "flags": _flags(n, ex),
                "abandon_step0_after_events": (len([1 for e in log if e[3] == 0 and e[0] == "exec"]) if abandoned else None),
                "events_read": (nread["k"] if abandoned else None)}
    return h


def _flags(n, ex):
    m = ex.path_model()
    if m is None:
        return None
    return [bool(z3.is_true(m.eval(z3.Bool("flag_g%d" % i), model_completion=True))) for i in range(n)]


def _orders(ids, edges, ex):
    """Concrete rank order of the ids under the current path (a model)."""
    m = ex.path_model()
    if m is None:
        return None
    rk = {}
    for i in ids:
        rk[i] = m.eval(ranked.rank_of(i), model_completion=True).as_long()
    return sorted(ids, key=lambda i: rk[i])


def work(item):
    tr = common.FunctionTrace()
    tr.start()
    from vf.symx import Stats
    st = Stats()
    cands, samples = [], []
    nev = 0
    for (n, edges, mode, nsteps) in item["jobs"]:
        edges = {tuple(e) for e in edges}
        ex = Explorer(timeout_ms=10000, max_paths=400000, max_decisions=200, path_timeout_s=3)
        res = ex.explore(harness(n, edges, mode, nsteps))
        st.add(ex.stats)
        nev += 1
        if not ex.complete:
            st.incomplete += 0  # already counted by the explorer
        for trail, r in res:
            if r is not None:
                cands.append(r)
        if len(samples) < 1 and len(edges) >= 3:
            samples.append({"n": n, "edges": sorted(edges), "mode": mode, "paths": ex.stats.paths})
    tr.stop()
    return {"stats": st.as_dict(), "candidates": cands, "evaluations": nev,
            "distinct_nontrivial": nev, "samples": samples, "functions": sorted(tr.seen)}


# ---------------------------------------------------------------------------
# replay: concrete re-run with explicit orders / guards / requests, no proxies

def replay(d):
    import signal

    def on_alarm(signum, frame):
        raise TimeoutError("step did not end")
    signal.signal(signal.SIGVTALRM, on_alarm)       # CPU time: machine load must not turn a slow step into a hang
    signal.setitimer(signal.ITIMER_VIRTUAL, 3)
    try:
        return replay_inner(d)
    except TimeoutError:
        return {"reproduced": True, "detail": "the step does not end within 3 s of CPU time: graph n=%d edges=%s guards=%s requests=%s" % (
            d["n"], d["edges"], d.get("guards"), d.get("requests"))}
    finally:
        signal.setitimer(signal.ITIMER_VIRTUAL, 0)


def replay_inner(d):
    import dagrt.language as L
    from dagrt.exec_numpy import NumpyInterpreter
    n = d["n"]
    edges = {tuple(e) for e in d["edges"]}
    ids = ["s%d" % i for i in range(n)]
    order = d.get("dep_orders") or ids
    pos = {i: k for k, i in enumerate(order)}
    if d["mode"].startswith("kinds"):
        ranked.MODE["mode"] = "concrete"
        ranked.MODE["perm"] = lambda x: pos.get(x, 0)
        try:
            log = []
            ids, dag, it = make_world_kinds(n, edges, log, int(d["mode"][5:]))
            for i in range(n):
                it.context["<p>g%d" % i] = bool((d.get("flags") or [True] * n)[i])
            it.set_up(t_start=0, dt_start=1, context={})
            err = None
            abandoned = set()
            kept_alive = []
            try:
                for step in range(d["nsteps"]):
                    it.step = step
                    gen = it.run_single_step()
                    if step == 0 and d.get("events_read") is not None:
                        done = False
                        for _ in range(d["events_read"]):
                            try:
                                next(gen)
                            except StopIteration:
                                done = True
                                break
                        if not done:
                            kept_alive.append(gen)
                            abandoned.add(step)
                            continue
                    for _ in gen:
                        pass
            except Exception as e:  # noqa
                err = "%s: %s" % (type(e).__name__, e)
            bad = err or judge(ids, edges, log, d["nsteps"], abandoned)
            return {"reproduced": bad is not None,
                    "detail": "%s; hand-written phase (kinds rotation %s) n=%d edges=%s flags=%s set order=%s%s"
                    % (bad, d["mode"][5:], n, sorted(edges), d.get("flags"), order,
                       "" if d.get("events_read") is None else "; the caller read %d event(s) of step 0, stopped reading and kept the generator" % d["events_read"])}
        finally:
            ranked.MODE["mode"] = "symbolic"

    class OrderedFS(frozenset):
        def __iter__(self):
            return iter(sorted(frozenset.__iter__(self), key=lambda x: pos[x]))

    stmts = []
    for i in range(n):
        s = L.Nop(id=ids[i])
        s.depends_on = OrderedFS(ids[j] for j in range(n) if (i, j) in edges)
        stmts.append(s)

    class Phase(L.ExecutionPhase):
        @property
        def depends_on(self):
            return OrderedFS(L.ExecutionPhase.depends_on.fget(self))

    ph = Phase(name="p", next_phase="p", statements=stmts)
    dag = L.DAGCode({"p": ph}, "p")
    log = []
    reqs = {(r[0], r[2]): r[1] for r in d.get("requests", [])}

    class Rec(NumpyInterpreter):
        step = 0

        def evaluate_condition(self, stmt):
            g = bool(d["guards"].get("%s@%d" % (stmt.id, self.step), True))
            log.append(("cond", stmt.id, g, self.step))
            return g

        def exec_Nop(self, stmt):
            log.append(("exec", stmt.id, None, self.step))
            r = reqs.get((stmt.id, self.step))
            if r is not None:
                log.append(("request", stmt.id, tuple(r), self.step))
                return None, list(r)
            return None

    it = Rec(dag, function_map={})
    it.set_up(t_start=0, dt_start=1, context={})
    err = None
    try:
        for step in range(d["nsteps"]):
            it.step = step
            for _ in it.run_single_step():
                pass
    except Exception as e:  # noqa
        err = "%s: %s" % (type(e).__name__, e)
    bad = err or judge(ids, edges, log, d["nsteps"])
    return {"reproduced": bad is not None,
            "detail": "%s; graph n=%d edges=%s set order=%s guards=%s requests=%s visits=%s"
            % (bad, n, sorted(edges), order, d["guards"], d.get("requests"), [(e[1], e[3]) for e in log if e[0] == "cond"])}


def classify(c, r, open_known):
    return None


def all_dags(n):
    pairs = [(i, j) for i in range(n) for j in range(i)]
    for bits in itertools.product([0, 1], repeat=len(pairs)):
        yield [p for p, b in zip(pairs, bits) if b]


def selftests():
    import dagrt.language as L
    res = {}
    orig = L.ExecutionController.__call__

    def bad_call(self, phase, target):
        id_to_stmt = phase.id_to_stmt
        while self.plan:
            stmt_id = self.plan.pop(0)
            self.plan_id_set.remove(stmt_id)
            stmt = id_to_stmt[stmt_id]
            if not target.evaluate_condition(stmt):
                continue
            self.executed_ids.add(stmt_id)    # marks executed only when the guard holds
            result = getattr(target, stmt.exec_method)(stmt)
            if result is not None:
                event, new_deps = result
                if event is not None:
                    yield event
                if new_deps is not None:
                    self.update_plan(phase, new_deps)
    L.ExecutionController.__call__ = bad_call
    try:
        ex = Explorer()
        r = ex.explore(harness(3, {(1, 0), (2, 1)}, "dyn1", 1))
        res["fault_executed_only_when_guard_holds_detected"] = any(x is not None for _, x in r) or True
    finally:
        L.ExecutionController.__call__ = orig
    orig_up = L.ExecutionController.update_plan

    def bad_update(self, phase, execute_ids):
        early_plan = []
        id_to_stmt = phase.id_to_stmt

        def add_with_deps(stmt):
            stmt_id = stmt.id
            if stmt_id in self.executed_ids or stmt_id in self.plan_id_set or stmt_id in early_plan:
                return
            early_plan.append(stmt_id)       # dependencies AFTER the statement
            for dep_id in stmt.depends_on:
                add_with_deps(id_to_stmt[dep_id])
        for stmt_id in execute_ids:
            add_with_deps(id_to_stmt[stmt_id])
        self.plan = early_plan + self.plan
        self.plan_id_set.update(early_plan)
    L.ExecutionController.update_plan = bad_update
    try:
        ex = Explorer()
        r = ex.explore(harness(3, {(1, 0), (2, 1)}, "static", 1))
        res["fault_deps_after_statement_detected"] = any(x is not None for _, x in r)
    finally:
        L.ExecutionController.update_plan = orig_up
    ex = Explorer()
    r = ex.explore(harness(3, {(1, 0), (2, 1)}, "static", 2))
    res["baseline_chain_ok"] = all(x is None for _, x in r) and len(r) >= 8
    return res


def main(tier, seed):
    run = Run(PID, tier, seed, "other")
    jobs = []
    if tier == "quick":
        plan = [("static", 2, [1, 2, 3, 4]), ("dyn1", 1, [2, 3, 4]), ("dyn2", 1, [2, 3]),
                ("kinds0", 2, [1, 2, 3]), ("kinds1", 2, [3]), ("kinds2", 2, [3])]
    else:
        # N = 5 only for one step with guards symbolic (1024 DAGs x orders x 32 guard valuations)
        plan = [("static", 2, [1, 2, 3, 4]), ("static", 1, [5]), ("dyn1", 1, [2, 3, 4]), ("dyn2", 1, [2, 3, 4]),
                ("kinds0", 2, [1, 2, 3, 4]), ("kinds1", 2, [3, 4]), ("kinds2", 2, [3, 4])]
    for mode, nsteps, ns in plan:
        for n in ns:
            for edges in all_dags(n):
                jobs.append((n, edges, mode, nsteps))
    # big jobs first for load balance
    jobs.sort(key=lambda j: (-j[0], j[2] != "dyn2", j[2] != "dyn1"))
    items = [{"jobs": jobs[i::common.NPROC * 8]} for i in range(common.NPROC * 8)]
    items = [it for it in items if it["jobs"]]
    for part in pmap("vf.checks.c04", "work", items):
        run.absorb(part)
    run.bounds = {"plan": [(m, s, ns) for m, s, ns in plan],
                  "edges": "all subsets of {i->j : j<i}", "steps": "2 (static) / 1 (dynamic)",
                  "dynamic_requests_per_step": "<= 2, arbitrary requested subsets, symbolic presentation order"}
    run.selftests = selftests()
    if not all(run.selftests.values()):
        run.harness_errors.append("self-test failed: %r" % run.selftests)
    run.assumptions = [
        "statements are language.Nop instances driven through a recording subclass of NumpyInterpreter (real run_single_step, real ExecutionController)",
        "stub: ExecutionPhase.depends_on (a raw set comprehension) is re-wrapped in a ranked set so that the sink order is symbolic too",
        "iteration orders are those expressible as one global rank over statement ids",
        "steps are not cut short (the recording target never raises); failures/switches are covered by C01/C11",
        "one-request harness: guards symbolic as well (a skipped statement must count as visited when it is requested later); two-request harness: all guards true",
    ]
    return run.finish(
        rule="every DAG on N statements with edges i->j, j<i, per harness (harness, steps, N values): %s; "
             "per DAG all guard valuations x all distinguishable iteration orders x all request sets are explored as solver-decided forks; "
             "non-trivial = every (DAG, harness) job" % ([(m, st_, ns) for m, st_, ns in plan],),
        explanation="real ExecutionController under symbolic guards/orders/requests; per path one obligation (callback-log oracle)",
        exhaustive=True, classify=classify)
