"""RefAst -- top-to-bottom executor of structured phases (Block / IfThen /
IfThenElse / ForLoop / StatementWrapper trees) over proxy values, independent
of dagrt's interpreter and of pymbolic's evaluator (dispatch on class names and
documented attributes).  A leaf's own `condition` attribute is honoured, as the
interpreter does.  Records events, a call log and the terminating outcome;
a read of a variable that has no value raises UndefinedRead."""
import operator


class UndefinedRead(Exception):
    def __init__(self, name):
        Exception.__init__(self, name)
        self.name = name


class Terminate(Exception):
    def __init__(self, outcome):
        self.outcome = outcome


_CMP = {"<": operator.lt, "<=": operator.le, ">": operator.gt, ">=": operator.ge,
        "==": operator.eq, "!=": operator.ne}


def feval(e, store, funcs, calllog):
    """Forking evaluation of a pymbolic expression on proxies / numbers."""
    n = type(e).__name__
    if e is True or e is False:
        return e
    if n in ("int", "float", "bool", "complex", "str", "NoneType") or n.startswith(("int", "float", "complex", "bool_")):
        import numpy as np
        return e.item() if isinstance(e, np.generic) else e
    if n == "Variable":
        if e.name not in store:
            raise UndefinedRead(e.name)
        return store[e.name]
    rec = lambda x: feval(x, store, funcs, calllog)  # noqa
    if n == "Sum":
        r = rec(e.children[0])
        for c in e.children[1:]:
            r = r + rec(c)
        return r
    if n == "Product":
        r = rec(e.children[0])
        for c in e.children[1:]:
            r = r * rec(c)
        return r
    if n == "Quotient":
        return rec(e.numerator) / rec(e.denominator)
    if n == "FloorDiv":
        return rec(e.numerator) // rec(e.denominator)
    if n == "Remainder":
        return rec(e.numerator) % rec(e.denominator)
    if n == "Power":
        return rec(e.base) ** rec(e.exponent)
    if n == "Comparison":
        return _CMP[e.operator](rec(e.left), rec(e.right))
    if n == "LogicalNot":
        return not rec(e.child)
    if n == "LogicalAnd":
        for c in e.children:
            if not rec(c):
                return False
        return True
    if n == "LogicalOr":
        for c in e.children:
            if rec(c):
                return True
        return False
    if n == "If":
        return rec(e.then) if rec(e.condition) else rec(e.else_)
    if n in ("Min", "Max"):
        vals = [rec(c) for c in e.children]
        r = vals[0]
        for v in vals[1:]:
            if n == "Min":
                r = v if v < r else r
            else:
                r = v if v > r else r
        return r
    if n == "Subscript":
        idx = e.index
        if isinstance(idx, tuple):
            (idx,) = idx
        return rec(e.aggregate)[rec(idx)]
    if n in ("Call", "CallWithKwargs"):
        fname = e.function.name
        args = [rec(p) for p in e.parameters]
        kw = {k: rec(v) for k, v in e.kw_parameters.items()} if n == "CallWithKwargs" else {}
        return do_call(fname, args, kw, funcs, calllog)
    raise ValueError("RefAst.feval: unsupported node %s" % n)


def do_call(fname, args, kw, funcs, calllog):
    if calllog is not None:
        calllog.append((fname, list(args), dict(kw)))
    return funcs[fname](*args, **kw)


class Run:
    def __init__(self, store, funcs):
        self.store = store
        self.funcs = funcs
        self.events = []
        self.calls = []
        self.outcome = "completed"
        self.executed = []    # statement ids in execution order

    def run(self, tree):
        try:
            self.node(tree)
        except Terminate as t:
            self.outcome = t.outcome
        return self

    def ev(self, e):
        return feval(e, self.store, self.funcs, self.calls)

    def node(self, nd):
        n = type(nd).__name__
        if n == "StatementWrapper":
            self.stmt(nd.statement)
        elif n == "NullASTNode":
            pass
        elif n == "Block":
            for c in nd.children:
                self.node(c)
        elif n == "IfThen":
            if self.ev(nd.condition):
                self.node(nd.then)
        elif n == "IfThenElse":
            if self.ev(nd.condition):
                self.node(nd.then)
            else:
                self.node(nd.else_)
        elif n == "ForLoop":
            lo, hi = self.ev(nd.lbound), self.ev(nd.ubound)
            for i in range(lo, hi):
                self.store[nd.loop_var_name] = i
                self.node(nd.body)
            self.store.pop(nd.loop_var_name, None)
        else:
            raise ValueError("RefAst: unsupported node %s" % n)

    def stmt(self, s):
        n = type(s).__name__
        cond = getattr(s, "condition", True)
        if cond is not True:
            if not self.ev(cond):
                return
        self.executed.append(s.id)
        if n == "Assign":
            self.assign(s, list(s.loops))
        elif n == "AssignFunctionCall":
            args = [self.ev(p) for p in s.parameters]
            kw = {k: self.ev(v) for k, v in s.kw_parameters.items()}
            res = do_call(s.function_id, args, kw, self.funcs, self.calls)
            if len(s.assignees) == 1:
                res = (res,)
            elif len(s.assignees) == 0:
                res = ()
            for a, r in zip(s.assignees, res):
                self.store[a] = r
        elif n == "YieldState":
            self.events.append(("StateComputed", self.ev(s.time), s.time_id, s.component_id, self.ev(s.expression)))
        elif n == "FailStep":
            raise Terminate("failed")
        elif n == "SwitchPhase":
            raise Terminate("switch:" + s.next_phase)
        elif n == "Raise":
            raise Terminate("raise:" + s.error_condition.__name__)
        elif n == "Nop":
            pass
        else:
            raise ValueError("RefAst: unsupported statement %s" % n)

    def assign(self, s, loops):
        if loops:
            ident, lo, hi = loops[0]
            a, b = self.ev(lo), self.ev(hi)
            for i in range(a, b):
                self.store[ident] = i
                self.assign(s, loops[1:])
            self.store.pop(ident, None)
            return
        val = self.ev(s.rhs)
        if s.assignee_subscript:
            (idx,) = s.assignee_subscript
            if s.assignee not in self.store:
                raise UndefinedRead(s.assignee)
            self.store[s.assignee][self.ev(idx)] = val
        else:
            self.store[s.assignee] = val
