"""Programs of the Fortran-supported subset (PG DSL), the generator set-up
used for them, and the pieces shared by C03 and C12: symbolic interpreter run
in the real-number model, persistent-state comparison, concrete inputs."""
import contextlib
import io

import z3

from vf import backends, pg, refprog, stmtdsl, symx
from vf.symx import SymArr, SymNum

V, C, ADD, MUL = pg.V, pg.C, pg.ADD, pg.MUL
T, DT = pg.T, pg.DT
Y = V("<state>y")
S = V("<p>s")
GT, LT = pg.GT, pg.LT
UT_LEN = 2


def F(*a):
    return ["call", "<func>f", list(a), {}]


def corpus():
    progs = []

    def add(name, prog, needs=("y",)):
        prog = dict(prog)
        prog["name"] = name
        if "<state>y" in pg.var_roles(prog):
            # kind inference learns the kind of <state>y only from a function result: an unreachable phase provides it
            prog["phases"] = list(prog["phases"]) + [
                {"name": "zz_kindseed", "next": "zz_kindseed", "ops": [["assign_call", ["<state>y"], "<func>f", [T, Y], {}]]}]
        progs.append(prog)

    add("euler", pg.P1([["assign_call", ["k"], "<func>f", [T, Y], {}],
                        ["assign", "<state>y", ADD(Y, MUL(DT, V("k"))), []],
                        ["yield", Y, "y", T, "final"], pg.STEP]))
    add("scalar_arith", pg.P1([["assign", "<p>s", ADD(MUL(S, C(2)), DT, ["/", S, C(4)]), []],
                               ["assign", "a", ADD(S, MUL(C(-1), T)), []],
                               ["assign", "<p>s", MUL(V("a"), V("a")), []], pg.STEP]))
    add("guard_fail", pg.P1([["assign", "y", Y, []],
                             ["if", ["expr", GT(T, C(3))], [["assign", "y", ADD(MUL(C(2), V("y")), F(T, V("y"))), []],
                                                           ["assign", "<p>s", ADD(S, C(1)), []]],
                              [["fail"]]],
                             ["assign", "<state>y", V("y"), []], ["yield", Y, "y", T, "final"], pg.STEP]))
    add("two_phases", {"phases": [
        {"name": "init", "next": "primary", "ops": [["assign", "<p>s", C(0), []], ["switch", "primary"]]},
        {"name": "primary", "next": "primary", "ops": [
            ["assign", "<p>s", ADD(S, DT), []],
            ["if", ["expr", GT(S, C(2))], [["assign", "<p>s", C(0), []], ["switch", "init"]], None],
            ["assign", "<state>y", ADD(Y, MUL(S, F(T, Y))), []], pg.STEP]}], "initial": "init"})
    # a step that FAILS in a phase whose default successor is a different phase (the successor must already be stored)
    add("fail_in_phase_with_other_successor", {"phases": [
        {"name": "boot", "next": "primary", "ops": [["assign", "<p>s", ADD(S, C(1)), []],
                                                    ["if", ["expr", LT(S, C(2))], [["fail"]], None],
                                                    ["assign", "<state>y", ADD(Y, F(T, Y)), []], pg.STEP]},
        {"name": "primary", "next": "primary", "ops": [["assign", "<p>s", ADD(S, DT), []],
                                                       ["if", ["expr", GT(S, C(4))], [["assign", "<p>s", C(0), []], ["switch", "boot"]], None],
                                                       ["assign", "<state>y", MUL(Y, C(2)), []], pg.STEP]}], "initial": "boot"})
    # two phases built with the SAME builder label (statement ids coincide), a same-named user-type temporary whose last use
    # in one phase has the id of an earlier, non-last use in the other
    add("coinciding_statement_ids", {"shared_builder_label": "step", "phases": [
        {"name": "boot", "next": "primary", "ops": [["assign", "u", F(T, Y), []], ["assign", "<state>y", ADD(Y, MUL(DT, V("u"))), []],
                                                    ["assign", "<p>s", ADD(S, C(1)), []], pg.STEP]},
        {"name": "primary", "next": "primary", "ops": [["assign", "u", F(T, Y), []], ["assign", "w", ADD(Y, MUL(DT, V("u"))), []],
                                                       ["assign", "<p>s", ["call", "<builtin>norm_2", [V("u")], {}], []],
                                                       ["assign", "<state>y", ADD(V("w"), V("u")), []], pg.STEP]}], "initial": "boot"})
    # a user-type temporary whose LAST use is inside a loop statement (it must stay alive for every iteration)
    add("last_use_in_loop_builtin", pg.P1([["assign", "u", ADD(Y, Y), []], ["assign", "a", ["call", "<builtin>array", [C(3)], {}], []],
                                           ["assign", ["sub", "a", V("i")], ADD(["call", "<builtin>norm_2", [V("u")], {}], V("i")), [["i", C(0), C(3)]]],
                                           ["assign", "<p>s", ["sub", V("a"), C(1)], []], pg.STEP]))
    add("last_use_in_loop_usertype", pg.P1([["assign", "u", ADD(Y, Y), []], ["assign", "w", Y, []],
                                            ["assign", "w", ADD(V("w"), V("u")), [["i", C(0), C(2)]]],
                                            ["assign", "<state>y", V("w"), []], pg.STEP]))
    add("cond_expr", pg.P1([["assign", "<p>s", ["if", LT(S, C(0)), MUL(S, C(-1)), ADD(S, C(1))], []], pg.STEP]))
    add("cond_expr_nested", pg.P1([["assign", "<p>s", ["if", LT(S, C(0)), ["if", LT(DT, C(1)), C(1), C(2)],
                                                         ["if", GT(S, C(5)), C(3), S]], []], pg.STEP]))
    add("not_equal", pg.P1([["if", ["expr", ["cmp", "!=", S, C(0)]], [["assign", "<p>s", ADD(S, C(-1)), []]],
                             [["assign", "<p>s", C(5), []]]], pg.STEP]))
    add("logic", pg.P1([["if", ["expr", ["or", ["and", GT(S, C(2)), ["not", GT(S, C(5))]], ["cmp", "<=", T, C(0)]]],
                         [["assign", "<p>s", ADD(S, C(-1)), []]], None], pg.STEP]))
    add("and_of_or", pg.P1([["if", ["expr", ["and", ["or", GT(S, C(2)), GT(T, C(10))], GT(DT, C(0.3))]],
                             [["assign", "<p>s", ADD(S, C(-1)), []]], [["assign", "<p>s", ADD(S, C(1)), []]]],
                            ["if", ["expr", ["or", ["and", GT(S, C(2)), GT(T, C(1))], ["not", ["or", GT(DT, C(0.3)), LT(S, C(0))]]]],
                             [["assign", "<dt>", MUL(DT, C(0.5)), []]], None], pg.STEP]))
    add("power", pg.P1([["assign", "<p>s", ADD(["**", S, C(2)], ["**", ["**", DT, C(2)], C(3)]), []], pg.STEP]))
    add("array_loop", pg.P1([["assign", "n", C(3), []], ["assign", "a", ["call", "<builtin>array", [V("n")], {}], []],
                             ["assign", ["sub", "a", V("i")], ADD(MUL(V("i"), DT), S), [["i", C(0), V("n")]]],
                             ["assign", "<p>s", ADD(["sub", V("a"), C(0)], ["sub", V("a"), C(2)],
                                                    ["call", "<builtin>len", [V("a")], {}]), []], pg.STEP]))
    add("array_norm", pg.P1([["assign", "a", ["call", "<builtin>array", [C(2)], {}], []],
                             ["assign", ["sub", "a", V("i")], ADD(S, V("i")), [["i", C(0), C(2)]]],
                             ["assign", "<p>s", ["call", "<builtin>norm_2", [V("a")], {}], []], pg.STEP]))
    add("usertype_norm", pg.P1([["assign", "<p>s", ["call", "<builtin>norm_2", [Y], {}], []],
                                ["assign", "<state>y", MUL(Y, S), []], pg.STEP]))
    add("usertype_moves", pg.P1([["assign", "a", Y, []], ["assign", "b", V("a"), []],
                                 ["assign", "a", ADD(V("b"), V("b")), []],
                                 ["if", ["expr", GT(S, C(0))], [["assign", "<state>y", V("a"), []]], [["assign", "<state>y", V("b"), []]]],
                                 ["assign", "<p>s", ADD(S, C(-1)), []], ["yield", V("b"), "y", ADD(T, DT), "mid"], pg.STEP]))
    add("usertype_fail_paths", pg.P1([["assign", "a", MUL(Y, C(2)), []], ["assign", "b", ADD(V("a"), Y), []],
                                      ["if", ["expr", GT(S, C(1))], [["assign", "<p>s", C(0), []], ["fail"]], None],
                                      ["assign", "<state>y", V("b"), []], ["assign", "<p>s", ADD(S, C(1)), []], pg.STEP]))
    add("usertype_switch_early", {"phases": [
        {"name": "a", "next": "a", "ops": [["assign", "tmp1", ADD(Y, Y), []],
                                           ["if", ["expr", GT(S, C(0))], [["assign", "<state>y", V("tmp1"), []], ["switch", "b"]], None],
                                           ["assign", "<p>s", ADD(S, C(1)), []], ["assign", "<state>y", MUL(V("tmp1"), C(3)), []]]},
        {"name": "b", "next": "a", "ops": [["assign", "<p>s", ADD(S, C(-2)), []], ["yield", Y, "y", T, "final"]]}], "initial": "a"})
    add("self_dep_loop", pg.P1([["assign", "y", Y, []],
                                ["assign", "y", F(C(0), MUL(C(2), V("y"))), [["i", C(0), C(2)]]],
                                ["assign", "<state>y", V("y"), []]]))
    add("integer_quotient", pg.P1([["assign", "a", ["call", "<builtin>array", [C(3)], {}], []],
                                   ["assign", ["sub", "a", V("i")], ["/", V("i"), C(2)], [["i", C(0), C(3)]]],
                                   ["assign", "<p>s", ADD(["sub", V("a"), C(1)], S), []]]))
    add("counter_quotient", pg.P1([["assign", "a", ["call", "<builtin>array", [C(3)], {}], []],
                                   ["assign", ["sub", "a", V("i")], ["/", V("i"), V("j")], [["i", C(0), C(3)], ["j", C(1), C(3)]]],
                                   ["assign", "<p>s", ADD(["sub", V("a"), C(1)], S), []]]))
    add("double_negation", pg.P1([["if", ["expr", ["not", ["not", LT(S, C(1))]]], [["assign", "<p>s", ADD(S, C(2)), []]],
                                   [["assign", "<p>s", ADD(S, C(-1)), []]]],
                                  ["assign", "<p>s", ["if", ["not", ["and", ["not", ["not", GT(S, C(0))]], GT(DT, C(0))]], S, MUL(S, C(2))], []],
                                  pg.STEP]))
    # stored as <state>y <- 0 (flatten): C03-K2
    add("zero_times_state", pg.P1([["assign", "<state>y", MUL(MUL(C(0), DT), Y), []], pg.STEP, ["yield", Y, "y", T, "final"]]))
    # constants that Python prints in exponent notation (the Fortran literal must still be double precision)
    add("exponent_literals", pg.P1([["assign", "<p>s", ADD(MUL(S, C(0.1)), MUL(C(1e-05), DT)), []],
                                    ["assign", "a", ["/", S, C(2.5e-06)], []],
                                    ["assign", "<p>s", ADD(MUL(V("a"), C(1e-20)), MUL(MUL(DT, C(1e+20)), C(3e-21))), []], pg.STEP]))
    add("raise_guarded", pg.P1([["assign", "<p>s", ADD(S, C(1)), []],
                                ["if", ["expr", GT(S, C(2))], [["raise", "ErrA", "too big"]], None], pg.STEP]))
    return progs


def registry():
    import dagrt.codegen.fortran as Fo
    from dagrt.function_registry import base_function_registry, register_ode_rhs
    freg = register_ode_rhs(base_function_registry, "y", identifier="<func>f", input_names=("y",))
    freg = freg.register_codegen("<func>f", "fortran", Fo.CallCode("""
        ${result} = ${t} - 2*${y}
        """))
    return freg


def generate(prog):
    import dagrt.codegen.fortran as Fo
    dag, _ = pg.build_dag(prog)
    with contextlib.redirect_stdout(io.StringIO()):
        txt = Fo.CodeGenerator("m", function_registry=registry(),
                               user_type_map={"y": Fo.ArrayType((UT_LEN,), Fo.BuiltinType("real*8"), index_vars="i")})(dag)
    return dag, txt


def user_f(t, y):
    """Python twin of the CallCode template above."""
    return t - 2 * y


# ---------------------------------------------------------------------------
# inputs

def mentions(prog):
    return pg.var_roles(prog)


def sym_inputs(prog):
    """(t0, dt0, state context, p-values) as REAL symbols; one fresh set of
    objects per call."""
    roles = mentions(prog)
    ctx = {}
    if "<state>y" in roles:
        ctx["y"] = SymArr([SymNum(z3.Real("in_y[%d]" % k)) for k in range(UT_LEN)], name="y")
    pvals = {}
    for n in roles:
        if n.startswith("<p>"):
            pvals[n] = SymNum(z3.Real("in_" + n))
    return SymNum(z3.Real("in_t")), SymNum(z3.Real("in_dt")), ctx, pvals


def conc_inputs(prog, vals):
    roles = mentions(prog)
    ctx = {}
    if "<state>y" in roles:
        import numpy as np
        ctx["y"] = np.array(vals["y"], dtype=float)
    pvals = {n: float(vals.get(n, 1.25)) for n in roles if n.startswith("<p>")}
    return float(vals["t"]), float(vals["dt"]), ctx, pvals


def init_kwargs(prog, t0, dt0, ctx, pvals, mod):
    """Arguments for the generated initialize()."""
    args = mod.subs["initialize"][0]
    kw = {}
    if "dagrt_t" in args:
        kw["dagrt_t"] = t0
    if "dagrt_dt" in args:
        kw["dagrt_dt"] = dt0
    if "y" in ctx and "state_y" in args:
        kw["state_y"] = list(ctx["y"].items) if isinstance(ctx["y"], SymArr) else [float(x) for x in ctx["y"]]
    for n, v in pvals.items():
        a = backends.sanitize(n)
        if a in args:
            kw[a] = v
    return kw


class InterpRunner:
    """One-step-at-a-time driver of the real interpreter."""

    def __init__(self, dag, t0, dt0, ctx, pvals, symbolic=True):
        from dagrt.exec_numpy import NumpyInterpreter
        self.it = NumpyInterpreter(dag, function_map={"<func>f": user_f})
        if symbolic:
            self.it.functions["<builtin>norm_2"] = sym_norm2
            self.it.functions["<builtin>len"] = sym_len
            self.it.functions["<builtin>array"] = sym_array
        self.it.set_up(t_start=t0, dt_start=dt0, context=ctx)
        for n, v in pvals.items():
            self.it.context[n] = v
        self.last_yield = {}

    def step(self):
        """-> 'completed' | 'failed' | 'raise:<kind>'"""
        from dagrt.exec_numpy import FailStepException, TransitionEvent
        it = self.it
        try:
            for ev in it.run_single_step():
                if type(ev).__name__ == "StateComputed":
                    self.last_yield[ev.component_id] = ev
            return "completed"
        except FailStepException:
            return "failed"
        except TransitionEvent as e:
            it.next_phase = e.next_phase
            return "completed"
        except (symx.Abort, symx.Unmodelled, symx.BudgetExceeded):
            raise
        except Exception as e:  # noqa
            return "raise:%s" % backends.error_kind(e)

    def persistent(self):
        return {n: v for n, v in self.it.context.items() if refprog.is_persistent(n)}


def _real(x):
    if isinstance(x, SymNum):
        return x if not x.is_int else SymNum(z3.ToReal(x.t))
    return SymNum(symx.lift(x)) if not isinstance(x, SymNum) else x


def sym_norm2(x):
    import vf.fsym as fsym
    ops = fsym.SymOps()
    xs = list(x.items) if isinstance(x, SymArr) else [x]
    return ops.norm2(xs)


def sym_len(x):
    return len(x.items) if isinstance(x, SymArr) else 1


def sym_array(n):
    n = symx.realize_int(n) if isinstance(n, SymNum) else int(n)
    # contents of a fresh array are undefined: named placeholders (reading one
    # before writing it is outside the claim on both sides)
    return SymArr([SymNum(z3.Real("uninit_%d" % k)) for k in range(n)])


# ---------------------------------------------------------------------------
# random programs of the Fortran-supported subset (typed by construction)

R = V("<p>r")


def _constant_only(e):
    from vf import exprdsl
    return not any(sub[0] == "v" for _, sub in exprdsl.subterms(e))


class FGen:
    def __init__(self, rng):
        self.rng = rng

    def scalar(self, sc, depth):
        rng = self.rng
        if depth <= 0 or rng.random() < 0.3:
            r = rng.random()
            if r < 0.6:
                return V(rng.choice(sc))
            # dyadic constants only: concrete floating-point arithmetic on them is exact, so the exact-rational model and
            # the interpreter's Python floats agree (max(b, 2.5e-06)**2 on the path where the constant wins is computed in
            # floating point: 6.250000000000001e-12).  9.5367431640625e-07 is 2**-20 (prints in exponent notation);
            # constants that are not exact in binary32 stay in the curated program exponent_literals.
            return C(rng.choice([0, 1, 2, -1, 3, 0.5, 2.5, 0.375, 9.5367431640625e-07]))
        op = rng.choice(["+", "+", "*", "*", "/", "pow", "if", "min", "max"])
        a, b = self.scalar(sc, depth - 1), self.scalar(sc, depth - 1)
        if _constant_only(a) and (_constant_only(b) or op == "pow"):
            # arithmetic on constants alone is carried out in floating point by Python before any symbolic value is
            # involved (0.1**2 is 0.010000000000000002), exactly on the Fortran side of the model: a one-ulp artefact
            # of the encoding, not of the code under test.  Every arithmetic node gets at least one variable operand.
            a = V(rng.choice(sc))
        if op == "/":
            # division by zero is outside the claim (gfortran rejects a constant zero denominator at compile time)
            b = V(rng.choice(sc)) if rng.random() < 0.5 else C(rng.choice([1, 2, -1, 0.5, 2.5]))
            if _constant_only(a) and _constant_only(b):
                a = V(rng.choice(sc))          # (the denominator was just replaced: same rule as above)
        if op == "pow":
            return ["**", a, C(2)]
        if op == "if":
            return ["if", self.cond(sc, 0), a, b]
        if op in ("min", "max"):
            return [op, a, b]
        return [op, a, b]

    def cond(self, sc, depth):
        rng = self.rng
        if depth > 0 and rng.random() < 0.3:
            k = rng.choice(["and", "or", "not"])
            if k == "not":
                return ["not", self.cond(sc, depth - 1)]
            return [k, self.cond(sc, depth - 1), self.cond(sc, depth - 1)]
        return ["cmp", rng.choice(["<", "<=", ">", ">=", "==", "!="]), self.scalar(sc, 1), self.scalar(sc, 0)]

    def utype(self, sc, ut, depth):
        rng = self.rng
        if depth <= 0 or rng.random() < 0.3:
            return V(rng.choice(ut))
        op = rng.choice(["+", "scale", "f", "+"])
        if op == "+":
            return ADD(self.utype(sc, ut, depth - 1), self.utype(sc, ut, depth - 1))
        if op == "scale":
            return MUL(self.scalar(sc, 1), self.utype(sc, ut, depth - 1))
        return F(rng.choice([T, ADD(T, DT)]), self.utype(sc, ut, depth - 1))

    def ops(self, sc, ut, budget, depth, phases):
        rng = self.rng
        out = []
        sc, ut = list(sc), list(ut)
        while budget[0] > 0:
            budget[0] -= 1
            r = rng.random()
            if r < 0.3:
                tgt = rng.choice(["<p>s", "<p>r", "a", "b"])
                out.append(["assign", tgt, self.scalar(sc, rng.choice([1, 2])), []])
                if tgt not in sc:
                    sc.append(tgt)
            elif r < 0.6:
                tgt = rng.choice(["<state>y", "u", "v", "w"])
                out.append(["assign", tgt, self.utype(sc, ut, rng.choice([1, 2])), []])
                if tgt not in ut:
                    ut.append(tgt)
            elif r < 0.68:
                tgt = rng.choice(["a", "<p>r"])
                out.append(["assign", tgt, ["call", "<builtin>norm_2", [V(rng.choice(ut))], {}], []])
                if tgt not in sc:
                    sc.append(tgt)
            elif r < 0.83 and depth < 2 and budget[0] > 0:
                b1 = [rng.randint(1, max(1, budget[0]))]
                budget[0] -= min(b1[0], budget[0])
                body = self.ops(sc, ut, b1, depth + 1, phases)
                els = None
                if rng.random() < 0.5 and budget[0] > 0:
                    b2 = [rng.randint(1, max(1, budget[0]))]
                    budget[0] -= min(b2[0], budget[0])
                    els = self.ops(sc, ut, b2, depth + 1, phases)
                out.append(["if", ["expr", self.cond(sc, rng.choice([1, 2, 2]))], body, els])
            elif r < 0.9:
                out.append(["yield", V(rng.choice(ut)), "y", rng.choice([T, ADD(T, DT)]), rng.choice(["final", "mid"])])
            elif r < 0.95 and depth > 0:
                out.append(["fail"])
                break
            elif depth > 0 and len(phases) > 1:
                out.append(["switch", rng.choice(phases)])
                break
            else:
                out.append(pg.STEP)
        return out


def move_patterns(max_len=2):
    """Bounded-exhaustive family of user-type move / overwrite patterns (C12's "all move/overwrite patterns", also
    used by C03): every sequence of <= max_len user-type assignments over {<state>y, u, v} (copy X <- Z or call
    X <- f(t, Z), sources defined) x what is yielded (nothing | the last target | <state>y) x where control leaves
    (plainly | whole body under a guard, else fail | last assignment guarded | guarded fail after the first
    assignment | guarded switch to a second phase after the last assignment).  <p>s counts down so that the guard
    changes between runs."""
    UT = ["<state>y", "u", "v"]
    guard = ["expr", GT(S, C(0))]

    def seqs(n, defined):
        if n == 0:
            yield []
            return
        for tgt in UT:
            for src in defined:
                for kind in ("copy", "f"):
                    if kind == "copy" and src == tgt:
                        continue
                    e = V(src) if kind == "copy" else F(T, V(src))
                    for rest in seqs(n - 1, defined + ([tgt] if tgt not in defined else [])):
                        yield [["assign", tgt, e, []]] + rest
    progs = []
    k = 0
    for n in range(1, max_len + 1):
        for body in seqs(n, ["<state>y"]):
            last = body[-1][1]
            for tail in ("none", "last", "state"):
                for wrap in ("plain", "all_guarded_else_fail", "last_guarded", "guarded_fail_after_first", "guarded_switch_after_last"):
                    if n == 1 and wrap == "guarded_fail_after_first":
                        continue
                    ops = [["assign", "<p>s", ADD(S, C(-1)), []]]
                    yl = [] if tail == "none" else [["yield", V(last if tail == "last" else "<state>y"), "y", T, "final"]]
                    if wrap == "plain":
                        ops += body + yl
                    elif wrap == "all_guarded_else_fail":
                        ops += [["if", guard, body + yl, [["fail"]]]]
                    elif wrap == "last_guarded":
                        if tail == "last" and last != "<state>y" and not any(b[1] == last for b in body[:-1]):
                            continue       # the yielded variable would be unassigned when the guard is false
                        ops += body[:-1] + [["if", guard, [body[-1]], None]] + yl
                    elif wrap == "guarded_fail_after_first":
                        ops += body[:1] + [["if", guard, [["fail"]], None]] + body[1:] + yl
                    else:
                        ops += body + [["if", guard, [["switch", "q"]], None]] + yl
                    phases = [{"name": "main", "next": "main", "ops": ops + [pg.STEP]},
                              {"name": "q", "next": "main", "ops": [["assign", "<p>s", ADD(S, C(2)), []],
                                                                     ["yield", Y, "y", T, "final"], pg.STEP]},
                              {"name": "zz_kindseed", "next": "zz_kindseed", "ops": [["assign_call", ["<state>y"], "<func>f", [T, Y], {}]]}]
                    progs.append({"name": "move%d" % k, "phases": phases, "initial": "main"})
                    k += 1
    return progs


def random_prog(rng, idx):
    g = FGen(rng)
    names = ["p0", "p1"] if rng.random() < 0.4 else ["p0"]
    phases = []
    for n in names:
        budget = [rng.randint(2, 7)]
        ops = g.ops(["<p>s", "<p>r", "<t>", "<dt>"], ["<state>y"], budget, 0, names)
        phases.append({"name": n, "next": rng.choice(names), "ops": ops})
    # unreachable phase: gives <state>y its kind and makes <p>s / <p>r variables the method assigns (a persistent
    # variable that is only ever read is not declared by the generator: such a method is outside the family)
    phases.append({"name": "zz_kindseed", "next": "zz_kindseed", "ops": [
        ["assign_call", ["<state>y"], "<func>f", [T, Y], {}], ["assign", "<p>s", DT, []], ["assign", "<p>r", DT, []]]})
    return {"name": "frand%d" % idx, "phases": phases, "initial": names[0]}
