"""symx -- a minimal path-forking symbolic executor for running *real* dagrt
code on z3-backed proxy values.

Explorer: stateless DFS with re-execution.  A harness function is run
repeatedly; each run replays a prefix of recorded boolean decisions and then
takes fresh ones.  At a fresh fork the solver is asked whether each side is
satisfiable together with the path condition; infeasible sides are never
entered, so every completed path has a satisfiable path condition.

Proxies: SymNum (z3 Int or Real), SymBool, SymArr.  Every ``if`` on a proxy is a
fork decided by z3.  Anything a proxy cannot model raises Unmodelled (a
BaseException, so that code under test cannot swallow it) -- never a silent
concretisation.
"""
import os
import struct
import time
import itertools
import z3


class Abort(BaseException):
    """Path is infeasible / abandoned (not an error)."""


class Unmodelled(BaseException):
    """A proxy met an operation it does not model: harness error."""


class BudgetExceeded(BaseException):
    pass


STATUS = {"fd": None}     # set by the worker pool: one status byte per worker process (S = inside a z3 call, P = in Python)
TIMEOUT_LOG = []      # (per worker process) which exploration ran out of its per-path budget


class PathTimeout(BaseException):
    """One path of the code under test ran longer than the per-path wall
    budget (a hang of the real code, or a harness that is too slow)."""


CUR = None  # the active Explorer


def cur():
    if CUR is None:
        raise Unmodelled("no active explorer")
    return CUR


class Stats:
    def __init__(self):
        self.paths = 0
        self.aborted_paths = 0
        self.forks = 0
        self.queries = {"sat": 0, "unsat": 0, "unknown": 0}
        self.solver_s = 0.0
        self.max_depth = 0
        self.obligations = 0
        self.discharged = 0
        self.undecided = 0
        self.refuted = 0
        self.incomplete = 0
        self.timeouts = 0
        self.solver_timeouts = 0

    def add(self, o):
        self.timeouts += getattr(o, "timeouts", 0)
        self.solver_timeouts += getattr(o, "solver_timeouts", 0)
        self.paths += o.paths
        self.aborted_paths += o.aborted_paths
        self.forks += o.forks
        for k in self.queries:
            self.queries[k] += o.queries[k]
        self.solver_s += o.solver_s
        self.max_depth = max(self.max_depth, o.max_depth)
        self.obligations += o.obligations
        self.discharged += o.discharged
        self.undecided += o.undecided
        self.refuted += o.refuted
        self.incomplete += o.incomplete

    def as_dict(self):
        d = dict(self.__dict__)
        d["queries"] = dict(self.queries)
        d["solver_s"] = round(self.solver_s, 3)
        return d

    @classmethod
    def from_dict(cls, d):
        s = cls()
        s.__dict__.update(d)
        s.timeouts = d.get("timeouts", 0)
        s.solver_timeouts = d.get("solver_timeouts", 0)
        s.queries = dict(d["queries"])
        return s


class Explorer:
    CROSS = {"every": int(__import__("os").environ.get("VERIF_CROSSCHECK", "0")), "count": 0,
             "asked": 0, "agree": 0, "inconclusive": 0, "disagree": []}

    def __init__(self, timeout_ms=10000, max_paths=20000, max_decisions=400,
                 wall_s=None, logic=None, path_timeout_s=60):
        self.path_timeout_s = path_timeout_s
        self.solver = z3.Solver() if logic is None else z3.SolverFor(logic)
        self.solver.set("timeout", timeout_ms)
        self.stats = Stats()
        self.max_paths = max_paths
        self.max_decisions = max_decisions
        self.wall_s = wall_s
        self.fresh_counter = itertools.count()
        self.complete = True

    # -- solver plumbing ----------------------------------------------
    def check(self, *extra):
        t = time.perf_counter()
        if STATUS["fd"] is not None:
            # "inside the solver since <time>" (read by the parent: a z3 call that ignores its timeout gets the process stopped)
            os.pwrite(STATUS["fd"], b"S" + struct.pack("d", time.time()), 0)
        try:
            r = self.solver.check(*extra)
        finally:
            if STATUS["fd"] is not None:
                os.pwrite(STATUS["fd"], b"P", 0)
        dt = time.perf_counter() - t
        self.stats.solver_s += dt
        self._path_solver_s = getattr(self, "_path_solver_s", 0.0) + dt
        self.stats.queries[str(r)] += 1
        return r

    def model(self):
        return self.solver.model()

    # -- exploration ---------------------------------------------------
    def explore(self, fn):
        """Run fn(self) on every feasible path.  Returns list of
        (trail, result).  Sets self.complete = False when a budget was hit."""
        global CUR
        work = [([], False)]
        results = []
        t0 = time.process_time()      # budgets are CPU time of this process: a loaded machine must not change verdicts
        prev = CUR
        CUR = self
        try:
            self.abort_all = False
            while work:
                if self.abort_all:
                    # a harness asked to stop (e.g. the code under test hangs on every path)
                    self.complete = False
                    self.stats.incomplete += 1
                    break
                if self.stats.paths >= self.max_paths or (
                        self.wall_s is not None
                        and time.process_time() - t0 > self.wall_s):
                    self.complete = False
                    self.stats.incomplete += 1
                    break
                prefix, tainted = work.pop()
                self.path_tainted = tainted
                self.prefix = prefix
                self.pos = 0
                self.trail = []
                self.new_alts = []
                self.path_fresh = itertools.count()
                self.solver.push()
                self._path_solver_s = 0.0
                old_handler = None
                if self.path_timeout_s:
                    import signal
                    import threading
                    if threading.current_thread() is threading.main_thread():
                        def _on_alarm(signum, frame):
                            raise PathTimeout()
                        old_handler = signal.signal(signal.SIGPROF, _on_alarm)
                        signal.setitimer(signal.ITIMER_PROF, self.path_timeout_s)
                try:
                    res = fn(self)
                    if self.path_tainted and isinstance(res, dict):
                        # a fork on this path was undecided or a product was abstracted (degree cap): a candidate from it is
                        # SOFT -- reported only if the concrete replay confirms it, otherwise counted undecided
                        res["_soft"] = True
                    results.append((list(self.trail), res))
                    self.stats.paths += 1
                except Abort:
                    self.stats.aborted_paths += 1
                except BudgetExceeded:
                    self.complete = False
                    self.stats.incomplete += 1
                except PathTimeout:
                    self.complete = False
                    self.stats.incomplete += 1
                    if self._path_solver_s > 0.5 * self.path_timeout_s or getattr(self, "timeout_is_undecided", False):
                        # the budget went into z3 (a query that ignored its own timeout), not into the code under
                        # test: the path is undecided, the exploration goes on
                        self.stats.undecided += 1
                        self.stats.solver_timeouts += 1
                        self.stats.max_depth = max(self.stats.max_depth, len(self.trail))
                        work.extend(self.new_alts)
                        continue
                    self.abort_all = True
                    self.stats.timeouts += 1
                    if len(TIMEOUT_LOG) < 5:
                        TIMEOUT_LOG.append({"label": getattr(self, "label", None), "decisions": len(self.trail), "paths_before": self.stats.paths})
                finally:
                    if old_handler is not None:
                        import signal
                        signal.setitimer(signal.ITIMER_PROF, 0)
                        signal.signal(signal.SIGPROF, old_handler)
                    self.solver.pop()
                self.stats.max_depth = max(self.stats.max_depth, len(self.trail))
                work.extend(self.new_alts)
        finally:
            CUR = prev
        return results

    def fresh(self, prefix):
        """A name that is the same on every re-execution of the same path
        prefix (deterministic per path)."""
        return "%s!%d" % (prefix, next(self.path_fresh))

    def branch(self, cond):
        """cond: z3 Bool.  Returns a concrete bool; forks when both feasible."""
        if isinstance(cond, bool):
            return cond
        cond = z3.simplify(cond)
        if z3.is_true(cond):
            return True
        if z3.is_false(cond):
            return False
        if self.pos < len(self.prefix):
            d = self.prefix[self.pos]
            if not isinstance(d, bool):
                raise Unmodelled("non-deterministic re-execution (expected a decision)")
            self.pos += 1
            self.solver.add(cond if d else z3.Not(cond))
            self.trail.append(d)
            return d
        if len(self.trail) >= self.max_decisions:
            raise BudgetExceeded()
        rt = self.check(cond)
        rf = self.check(z3.Not(cond))
        can_t = rt != z3.unsat
        can_f = rf != z3.unsat
        if rt == z3.unknown or rf == z3.unknown:
            # cannot prune: follow both sides.  Sound for "holds" verdicts
            # (a superset of the feasible paths is explored); a mismatch found
            # on such a path may be spurious, so the path is marked tainted and
            # harnesses report it as undecided, not as a candidate.
            self.path_tainted = True
        if can_t and can_f:
            self.stats.forks += 1
            self.new_alts.append((self.trail + [False], self.path_tainted))
            d = True
        elif can_t:
            d = True
        elif can_f:
            d = False
        else:
            raise Abort()
        self.pos += 1
        self.prefix = self.trail + [d]
        self.solver.add(cond if d else z3.Not(cond))
        self.trail.append(d)
        return d

    def recorded(self, compute):
        """A value that must be identical on every re-execution of this path
        prefix (e.g. a model value): stored in the trail on first execution,
        read back from the prefix on replay."""
        if self.pos < len(self.prefix):
            ent = self.prefix[self.pos]
            if not (isinstance(ent, tuple) and ent[0] == "val"):
                raise Unmodelled("non-deterministic re-execution (expected a recorded value)")
            self.pos += 1
            self.trail.append(ent)
            return ent[1]
        v = compute()
        self.pos += 1
        self.trail.append(("val", v))
        self.prefix = list(self.trail)
        return v

    def assume(self, cond):
        if isinstance(cond, bool):
            if not cond:
                raise Abort()
            return
        self.solver.add(cond)

    def assume_checked(self, cond):
        self.assume(cond)
        if self.check() == z3.unsat:
            raise Abort()

    def feasible(self):
        return self.check() != z3.unsat

    def choice(self, n, label="ch"):
        """n-way choice point (0..n-1) as a fresh symbolic integer that is
        realised by forking; lets the solver prune with assumptions."""
        v = z3.Int(self.fresh(label))
        self.solver.add(v >= 0, v < n)
        for k in range(n - 1):
            if self.branch(v == k):
                return k
        return n - 1

    # -- obligations -----------------------------------------------------
    def prove(self, cond):
        """Return ('valid', None) | ('refuted', model) | ('unknown', None)
        for  pc => cond."""
        self.stats.obligations += 1
        if isinstance(cond, bool):
            if cond:
                self.stats.discharged += 1
                return "valid", None
            self.stats.refuted += 1
            r = self.check()
            return "refuted", (self.model() if r == z3.sat else None)
        r = self.check(z3.Not(cond))
        m = self.model() if r == z3.sat else None     # before the cross-check, which may touch the solver
        if self.CROSS["every"] and r != z3.unknown:
            self.CROSS["count"] += 1
            if self.CROSS["count"] % self.CROSS["every"] == 0:
                self._cross_check(z3.Not(cond), r)
        if r == z3.unsat:
            self.stats.discharged += 1
            return "valid", None
        if r == z3.sat:
            self.stats.refuted += 1
            return "refuted", m
        self.stats.undecided += 1
        return "unknown", None

    def valid(self, cond):
        return self.prove(cond)[0] == "valid"

    def _cross_check(self, extra, z3_verdict):
        """Second opinion of cvc5 (binary on PATH) on a sampled validity query
        (thorough tier).  A definite disagreement is a harness error."""
        import os
        import subprocess
        import tempfile
        self.solver.push()
        try:
            self.solver.add(extra)
            text = self.solver.to_smt2()
        finally:
            self.solver.pop()
        text = "(set-logic ALL)\n" + text
        fd, path = tempfile.mkstemp(suffix=".smt2", prefix="vf_cross_")
        try:
            with os.fdopen(fd, "w") as f:
                f.write(text)
            self.CROSS["asked"] += 1
            try:
                p = subprocess.run(["cvc5", "--tlimit=3000", path], capture_output=True, text=True, timeout=20)
                out = (p.stdout or "").strip().splitlines()
                ans = out[0].strip() if out else "unknown"
            except Exception:  # noqa
                ans = "unknown"
            if ans not in ("sat", "unsat") or "(error" in (p.stdout + p.stderr if "p" in dir() else ""):
                self.CROSS["inconclusive"] += 1
            elif ans == str(z3_verdict):
                self.CROSS["agree"] += 1
            else:
                self.CROSS["disagree"].append({"z3": str(z3_verdict), "cvc5": ans, "query": text[:2000]})
        finally:
            try:
                os.unlink(path)
            except OSError:
                pass

    def path_model(self):
        r = self.check()
        if r == z3.sat:
            return self.model()
        return None


# ---------------------------------------------------------------------------
# value lifting

INT = z3.IntSort()
REAL = z3.RealSort()
BOOL = z3.BoolSort()

# how non-integer literals are lifted: "uf" -> named uninterpreted Int constant
# (equal names <=> printer round-tripped the literal);  "real" -> exact rational
LITERAL_MODE = {"mode": "uf"}


def _is_np_int(x):
    import numpy as np
    return isinstance(x, np.integer)


def _is_np_float(x):
    import numpy as np
    return isinstance(x, np.floating)


def lift(x):
    """Python value / proxy -> z3 arithmetic term."""
    if isinstance(x, SymNum):
        return x.t
    if isinstance(x, SymBool):
        return z3.If(x.t, z3.IntVal(1), z3.IntVal(0))
    if isinstance(x, bool):
        return z3.IntVal(int(x))
    if isinstance(x, int):
        return z3.IntVal(x)
    if _is_np_int(x):
        return z3.IntVal(int(x))
    if isinstance(x, float) or _is_np_float(x):
        xf = float(x)
        if LITERAL_MODE["mode"] == "real":
            if xf != xf or xf in (float("inf"), float("-inf")):
                raise Unmodelled("non-finite literal in real mode")
            from fractions import Fraction
            fr = Fraction(xf)       # the exact binary64 value (not its shortest decimal spelling)
            return z3.RealVal(str(fr))
        if xf == xf and xf not in (float("inf"), float("-inf")) and xf == int(xf) and abs(xf) < 2**53:
            # integral floats are integers in the integer model (2/1 == 2.0 == 2)
            return z3.IntVal(int(xf))
        return z3.Int("lit_" + repr(xf))
    if isinstance(x, complex):
        return z3.Int("lit_" + repr(x))
    if x is None:
        # what Python itself does for arithmetic with None (e.g. the value of
        # an unassigned variable in the interpreter)
        raise TypeError("unsupported operand type(s): 'NoneType'")
    raise Unmodelled("cannot lift %r of type %s" % (x, type(x).__name__))


def lift_bool(x):
    if isinstance(x, SymBool):
        return x.t
    if isinstance(x, bool):
        return z3.BoolVal(x)
    if isinstance(x, SymNum):
        return x.t != 0
    if isinstance(x, (int, float)):
        return z3.BoolVal(bool(x))
    import numpy as np
    if isinstance(x, np.bool_):
        return z3.BoolVal(bool(x))
    raise Unmodelled("cannot lift %r to bool" % (x,))


def is_sym(x):
    return isinstance(x, (SymNum, SymBool, SymArr))


_UFS = {}


def uf(name, *sorts):
    key = (name,) + tuple(str(s) for s in sorts)
    f = _UFS.get(key)
    if f is None:
        f = z3.Function(name, *sorts)
        _UFS[key] = f
    return f


def uf_apply(name, args, ret_sort=None):
    """Apply the uninterpreted function `name` to lifted args."""
    targs = []
    for a in args:
        if isinstance(a, SymBool):
            targs.append(a.t)
        elif isinstance(a, bool):
            targs.append(z3.BoolVal(a))
        elif isinstance(a, str):
            targs.append(z3.StringVal(a))
        elif isinstance(a, z3.ExprRef):
            targs.append(a)
        else:
            targs.append(lift(a))
    if ret_sort is None:
        ret_sort = INT
    sorts = [a.sort() for a in targs] + [ret_sort]
    f = uf("%s/%d" % (name, len(targs)) if False else name, *sorts)
    return f(*targs)


def _coerce2(a, b):
    """make sorts agree (Int/Real)"""
    if a.sort() == b.sort():
        return a, b
    if a.sort() == INT and b.sort() == REAL:
        return z3.ToReal(a), b
    if a.sort() == REAL and b.sort() == INT:
        return a, z3.ToReal(b)
    raise Unmodelled("sort mismatch %s %s" % (a.sort(), b.sort()))


def _unm(name):
    def f(self, *a, **k):
        raise Unmodelled("%s.%s" % (type(self).__name__, name))
    f.__name__ = name
    return f


class SymBool:
    __slots__ = ("t",)

    def __init__(self, t):
        self.t = t if not isinstance(t, bool) else z3.BoolVal(t)

    def __bool__(self):
        return cur().branch(self.t)

    def __repr__(self):
        return "SymBool(%s)" % z3.simplify(self.t)

    def __eq__(self, o):
        return SymBool(self.t == lift_bool(o))

    def __ne__(self, o):
        return SymBool(self.t != lift_bool(o))

    def __and__(self, o):
        return SymBool(z3.And(self.t, lift_bool(o)))

    __rand__ = __and__

    def __or__(self, o):
        return SymBool(z3.Or(self.t, lift_bool(o)))

    __ror__ = __or__

    def __invert__(self):
        raise Unmodelled("~ on SymBool")

    __hash__ = None
    # arithmetic with flags: Python allows it (bool is an int)
    def _num(self):
        return SymNum(z3.If(self.t, z3.IntVal(1), z3.IntVal(0)))

    def __add__(self, o): return self._num() + o
    def __radd__(self, o): return o + self._num()
    def __sub__(self, o): return self._num() - o
    def __rsub__(self, o): return o - self._num()
    def __mul__(self, o): return self._num() * o
    def __rmul__(self, o): return o * self._num()
    def __neg__(self): return -self._num()
    def __lt__(self, o): return self._num() < o
    def __le__(self, o): return self._num() <= o
    def __gt__(self, o): return self._num() > o
    def __ge__(self, o): return self._num() >= o
    def __truediv__(self, o): return self._num() / o
    def __rtruediv__(self, o): return o / self._num()
    def __pow__(self, o): return self._num() ** o
    def __rpow__(self, o): return o ** self._num()
    __int__ = _unm("__int__")
    __float__ = _unm("__float__")
    __index__ = _unm("__index__")


# denominators of real-model divisions met on the current path (cleared by the
# harness at path start).  z3's real division is total with x/0 unspecified, so a
# model that sets a denominator to 0 says nothing about IEEE arithmetic: checks
# that use the real model re-prove a refuted equality under "all denominators
# are non-zero" and state that assumption (division by zero is outside the claim).
REAL_DENOMS = []


def nonzero_denominators():
    return z3.And([d != 0 for d in REAL_DENOMS]) if REAL_DENOMS else z3.BoolVal(True)


def int_truediv(a, b):
    """`/` on the integer model: uninterpreted, except for the identities
    pymbolic.flatten applies when statements are built (x/1 -> x, 0/x -> 0)."""
    a1, b1 = z3.simplify(a), z3.simplify(b)
    if z3.is_int_value(b1) and b1.as_long() == 1:
        return a
    if z3.is_int_value(a1) and a1.as_long() == 0:
        return z3.IntVal(0)
    if z3.is_int_value(a1) and z3.is_int_value(b1) and b1.as_long() != 0 and a1.as_long() % b1.as_long() == 0:
        # constants on this path with an integral quotient (integral floats are modelled as integers)
        return z3.IntVal(a1.as_long() // b1.as_long())
    return uf("truediv", INT, INT, INT)(a, b)


def int_pow(a, b):
    """`**` on the integer model: uninterpreted, except x**1 -> x (flatten)."""
    a1, b1 = z3.simplify(a), z3.simplify(b)
    if z3.is_int_value(b1) and b1.as_long() == 1:
        return a
    if z3.is_int_value(b1) and b1.as_long() == 0:
        return z3.IntVal(1)         # Python: x**0 == 1 for every number, 0**0 included
    if z3.is_int_value(a1) and z3.is_int_value(b1) and 0 <= b1.as_long() <= 16 and abs(a1.as_long()) <= 64:
        # both operands are constants on this path: what a concrete executor computes
        return z3.IntVal(a1.as_long() ** b1.as_long())
    return uf("pow", INT, INT, INT)(a, b)


# ---------------------------------------------------------------------------
# degree cap: z3's non-linear arithmetic (nla / nlsat) ignores its own timeout on polynomials of high degree (a program
# such as  z <- t*z*z  run for three steps gives degree 15: observed a factorisation that ran for 30 min and a model search
# that allocated 64 GB).  A product whose polynomial degree would exceed DEG_CAP is therefore an UNINTERPRETED product
# hmul(a, b) (arguments in a canonical order).  Sound for "valid" verdicts (what holds for every interpretation of hmul
# holds for multiplication); a refutation on a path that used hmul is not trusted: the path is marked tainted, a candidate
# from it is "soft" (reported only if the concrete replay against the real code confirms it, else counted undecided).
# Integer terms: degree <= 2 (non-linear INTEGER arithmetic is where z3 ran away); real terms (decided by nlsat, which
# never ran away on the real-number model of C03/C12): degree <= 16.

DEG_CAP = {"Int": 2, "Real": 16}
_DEG = {}
ABSTRACTED = {"count": 0}


def degree(t):
    k = t.get_id()
    hit = _DEG.get(k)
    if hit is not None:
        return hit[1]
    if z3.is_int_value(t) or z3.is_rational_value(t) or z3.is_algebraic_value(t):
        d = 0
    elif not z3.is_app(t):
        d = 1
    else:
        kind = t.decl().kind()
        ch = t.children()
        if kind == z3.Z3_OP_MUL:
            d = sum(degree(c) for c in ch)
        elif kind in (z3.Z3_OP_ADD, z3.Z3_OP_SUB, z3.Z3_OP_UMINUS, z3.Z3_OP_TO_REAL, z3.Z3_OP_TO_INT):
            d = max([degree(c) for c in ch] or [0])
        elif kind == z3.Z3_OP_ITE:
            d = max(degree(ch[1]), degree(ch[2]))
        else:
            d = 1           # variables, uninterpreted applications, div/mod ...: atoms
    if len(_DEG) > 200000:
        _DEG.clear()
    _DEG[k] = (t, d)        # the term is kept alive with its entry: z3 recycles the ids of freed terms
    return d


_CANON = {}


def canon_key(t):
    k = t.get_id()
    hit = _CANON.get(k)
    if hit is not None:
        return hit[1]
    if not z3.is_app(t) or t.num_args() == 0:
        r = t.sexpr()
    else:
        name = t.decl().name()
        parts = [canon_key(c) for c in t.children()]
        if t.decl().kind() in (z3.Z3_OP_ADD, z3.Z3_OP_MUL, z3.Z3_OP_AND, z3.Z3_OP_OR, z3.Z3_OP_EQ, z3.Z3_OP_DISTINCT) or name == "hmul":
            parts.sort()
        r = "(%s %s)" % (name, " ".join(parts))
        if len(r) > 4000:
            import hashlib
            r = "#" + hashlib.sha1(r.encode()).hexdigest()
    if len(_CANON) > 100000:
        _CANON.clear()
    _CANON[k] = (t, r)
    return r


def _factors(t, atoms, coeff):
    """Multiplicative decomposition of a term: numeric coefficient (list cell) and atomic factors."""
    if z3.is_int_value(t):
        coeff[0] = coeff[0] * t.as_long()
        return
    if z3.is_rational_value(t):
        from fractions import Fraction
        coeff[0] = coeff[0] * Fraction(t.numerator_as_long(), t.denominator_as_long())
        return
    if z3.is_app(t) and t.decl().kind() == z3.Z3_OP_TO_REAL and z3.is_int_value(t.arg(0)):
        coeff[0] = coeff[0] * t.arg(0).as_long()
        return
    if z3.is_app(t):
        h = t.decl().name() == "hmul"
        if t.decl().kind() == z3.Z3_OP_MUL or h:
            if h and len(coeff) > 1:
                coeff[1] = True           # an abstracted product is among the factors
            for c in t.children():
                _factors(c, atoms, coeff)
            return
    atoms.append(t)


def capped_mul(a, b):
    """a * b on z3 terms of one arithmetic sort.  Above the degree cap the product is uninterpreted, in an
    associative-commutative normal form: the atomic factors of both operands (looking through * and hmul) sorted
    structurally and chained as hmul(f1, hmul(f2, ...)), so that (t*z)*z, t*(z*z) and z*(t*z) are one term."""
    da, db = degree(a), degree(b)
    so = a.sort()
    cap = DEG_CAP["Int" if so == INT else "Real"]
    atoms, coeff = [], [1, False]
    _factors(a, atoms, coeff)
    _factors(b, atoms, coeff)
    if not coeff[1] and (da == 0 or db == 0 or da + db <= cap):
        return a * b
    if coeff[0] == 0:
        return z3.IntVal(0) if so == INT else z3.RealVal(0)
    if len(atoms) <= 1 or sum(degree(x) for x in atoms) <= cap:
        r = None
        for x in atoms:
            r = x if r is None else r * x
    else:
        ABSTRACTED["count"] += 1
        if CUR is not None:
            CUR.path_tainted = True
        # a structural order modulo associativity/commutativity of + and * (term ids are recycled and depend on when a
        # term was built; z3's own argument order depends on ids too)
        atoms.sort(key=lambda x: canon_key(z3.simplify(x)))
        h = uf("hmul", so, so, so)
        r = atoms[-1]
        for x in reversed(atoms[:-1]):
            r = h(x, r)
    if coeff[0] != 1:
        c = z3.IntVal(int(coeff[0])) if so == INT and coeff[0] == int(coeff[0]) else z3.RealVal(str(coeff[0]))
        if r is None:
            return c
        if c.sort() != r.sort():
            r = z3.ToReal(r)
        r = c * r
    return r if r is not None else (z3.IntVal(1) if so == INT else z3.RealVal(1))


def real_pow(a, b):
    """`**` in the real-number model: a small integral constant exponent is
    repeated multiplication (exact); anything else is uninterpreted."""
    b1 = z3.simplify(b)
    n = None
    if z3.is_int_value(b1):
        n = b1.as_long()
    elif z3.is_rational_value(b1) and b1.denominator_as_long() == 1:
        n = b1.numerator_as_long()
    if n is not None and 0 <= n <= 8 and (n <= 1 or n * degree(a) <= DEG_CAP["Real"]):
        r = z3.RealVal(1)
        for _ in range(n):
            r = r * a
        return r
    if b.sort() != REAL:
        b = z3.ToReal(b)
    return uf("powr", REAL, REAL, REAL)(a, b)


def _py_floordiv(a, b):
    # Python floor division on ints via z3's Euclidean div
    q = a / b  # z3 Int '/' is div (Euclidean)
    r = a % b
    # Euclidean: a = b*q + r, 0<=r<|b|.  floor: if b<0 and r!=0 -> q-1
    return z3.If(z3.And(b < 0, r != 0), q - 1, q)


def _py_mod(a, b):
    r = a % b
    return z3.If(z3.And(b < 0, r != 0), r + b, r)


class SymNum:
    __slots__ = ("t",)

    def __init__(self, t):
        if isinstance(t, int):
            t = z3.IntVal(t)
        self.t = t

    @property
    def is_int(self):
        return self.t.sort() == INT

    # the proxies model real numbers: z.real is z, z.imag is 0 (as for Python ints/floats)
    @property
    def real(self):
        return self

    @property
    def imag(self):
        return SymNum(z3.IntVal(0) if self.t.sort() == INT else z3.RealVal(0))

    def conjugate(self):
        return self

    def __repr__(self):
        return "SymNum(%s)" % z3.simplify(self.t)

    # arithmetic ---------------------------------------------------------
    def _bin(self, o, op, swap=False):
        if isinstance(o, (SymArr,)):
            return NotImplemented
        a, b = self.t, lift(o)
        if swap:
            a, b = b, a
        a, b = _coerce2(a, b)
        return SymNum(op(a, b))

    def __add__(self, o): return self._bin(o, lambda a, b: a + b)
    def __radd__(self, o): return self._bin(o, lambda a, b: a + b, True)
    def __sub__(self, o): return self._bin(o, lambda a, b: a - b)
    def __rsub__(self, o): return self._bin(o, lambda a, b: a - b, True)
    def __mul__(self, o): return self._bin(o, capped_mul)
    def __rmul__(self, o): return self._bin(o, capped_mul, True)

    @staticmethod
    def _div(a, b):
        if a.sort() == REAL:
            if not z3.is_rational_value(z3.simplify(b)) and len(REAL_DENOMS) < 200:
                REAL_DENOMS.append(b)
            return a / b
        return int_truediv(a, b)

    def __truediv__(self, o): return self._bin(o, SymNum._div)
    def __rtruediv__(self, o): return self._bin(o, SymNum._div, True)

    @staticmethod
    def _pow(a, b):
        if a.sort() == REAL:
            return real_pow(a, b)
        return int_pow(a, b)

    def __pow__(self, o, mod=None):
        if mod is not None:
            raise Unmodelled("3-arg pow")
        return self._bin(o, SymNum._pow)

    def __rpow__(self, o): return self._bin(o, SymNum._pow, True)

    @staticmethod
    def _fdiv(a, b):
        if a.sort() == REAL:
            return uf("floordivr", REAL, REAL, REAL)(a, b)
        return _py_floordiv(a, b)

    @staticmethod
    def _mod(a, b):
        if a.sort() == REAL:
            return uf("modr", REAL, REAL, REAL)(a, b)
        return _py_mod(a, b)

    def __floordiv__(self, o): return self._bin(o, SymNum._fdiv)
    def __rfloordiv__(self, o): return self._bin(o, SymNum._fdiv, True)
    def __mod__(self, o): return self._bin(o, SymNum._mod)
    def __rmod__(self, o): return self._bin(o, SymNum._mod, True)

    def __neg__(self): return SymNum(-self.t)
    def __pos__(self): return self
    def __abs__(self): return SymNum(z3.If(self.t >= 0, self.t, -self.t))

    # comparisons ----------------------------------------------------------
    def _cmp(self, o, op):
        if isinstance(o, SymArr) or o is None or isinstance(o, str):
            return NotImplemented
        a, b = _coerce2(self.t, lift(o))
        return SymBool(op(a, b))

    def __lt__(self, o): return self._cmp(o, lambda a, b: a < b)
    def __le__(self, o): return self._cmp(o, lambda a, b: a <= b)
    def __gt__(self, o): return self._cmp(o, lambda a, b: a > b)
    def __ge__(self, o): return self._cmp(o, lambda a, b: a >= b)

    def __eq__(self, o):
        if o is None or isinstance(o, str):
            return False
        return self._cmp(o, lambda a, b: a == b)

    def __ne__(self, o):
        if o is None or isinstance(o, str):
            return True
        return self._cmp(o, lambda a, b: a != b)

    __hash__ = None

    def __bool__(self):
        return cur().branch(self.t != 0)

    def __index__(self):
        return realize_int(self)

    __int__ = _unm("__int__")
    __float__ = _unm("__float__")
    __complex__ = _unm("__complex__")
    __round__ = _unm("__round__")
    __lshift__ = _unm("__lshift__")
    __rshift__ = _unm("__rshift__")
    __and__ = _unm("__and__")
    __or__ = _unm("__or__")
    __xor__ = _unm("__xor__")
    __invert__ = _unm("__invert__")
    __divmod__ = _unm("__divmod__")
    __array__ = _unm("__array__")
    __array_ufunc__ = None
    __len__ = _unm("__len__")
    __iter__ = _unm("__iter__")


def realize_int(x):
    """Concrete int for a SymNum by exhaustive forking (t == v | t != v)."""
    ex = cur()
    t = z3.simplify(x.t if isinstance(x, SymNum) else x)
    if z3.is_int_value(t):
        return t.as_long()
    if t.sort() != INT:
        raise Unmodelled("realising a non-integer")
    n = 0

    def pick():
        r = ex.check()
        if r != z3.sat:
            if r == z3.unknown:
                raise BudgetExceeded()
            raise Abort()
        return ex.model().eval(t, model_completion=True).as_long()

    while True:
        v = ex.recorded(pick)
        if ex.branch(t == v):
            return v
        n += 1
        if n > 64:
            raise BudgetExceeded()


class SymArr:
    """1-D array of proxies with concrete length; emulates the ndarray
    operations the interpreter and generated code use."""

    def __init__(self, items, name=None):
        self.items = list(items)
        self.name = name

    @property
    def size(self):
        return len(self.items)

    @property
    def shape(self):
        return (len(self.items),)

    def __len__(self):
        return len(self.items)

    def _ix(self, i):
        if isinstance(i, tuple):
            if len(i) != 1:
                raise IndexError("too many indices for array")
            (i,) = i
        if isinstance(i, float) or (not isinstance(i, (int, SymNum, SymBool, slice))):
            # numpy: only integers, slices ... are valid indices
            raise IndexError("only integers are valid indices")
        return i

    def copy(self):
        return SymArr(self.items, self.name)

    def __getitem__(self, i):
        i = self._ix(i)
        if isinstance(i, SymBool):
            raise Unmodelled("bool index")
        if isinstance(i, SymNum):
            n = len(self.items)
            if not i.is_int:
                raise IndexError("non-integer index")
            ex = cur()
            if not ex.branch(z3.And(i.t >= -n, i.t < n)):
                raise IndexError("index out of bounds")
            idx = z3.If(i.t < 0, i.t + n, i.t)
            idx = z3.simplify(idx)
            if z3.is_int_value(idx):
                return self.items[idx.as_long()]
            r = lift(self.items[n - 1])
            for k in range(n - 2, -1, -1):
                a, b = _coerce2(lift(self.items[k]), r)
                r = z3.If(idx == k, a, b)
            return SymNum(r)
        if isinstance(i, slice):
            return SymArr(self.items[i])
        return self.items[i]

    def __setitem__(self, i, v):
        i = self._ix(i)
        if isinstance(v, (SymArr, list, tuple)):
            raise Unmodelled("array-valued element store")
        if isinstance(i, SymNum):
            n = len(self.items)
            ex = cur()
            if not ex.branch(z3.And(i.t >= -n, i.t < n)):
                raise IndexError("index out of bounds")
            idx = z3.simplify(z3.If(i.t < 0, i.t + n, i.t))
            if z3.is_int_value(idx):
                self.items[idx.as_long()] = v
                return
            for k in range(n):
                a, b = _coerce2(lift(v), lift(self.items[k]))
                self.items[k] = SymNum(z3.If(idx == k, a, b))
            return
        if isinstance(i, slice):
            raise Unmodelled("slice store")
        self.items[i] = v

    def __iter__(self):
        return iter(self.items)

    def _ew(self, o, op):
        if isinstance(o, SymArr):
            if len(o.items) != len(self.items):
                raise ValueError("operands could not be broadcast together")
            return SymArr([op(a, b) for a, b in zip(self.items, o.items)])
        return SymArr([op(a, o) for a in self.items])

    def __add__(self, o): return self._ew(o, lambda a, b: a + b)
    def __radd__(self, o): return self._ew(o, lambda a, b: b + a)
    def __sub__(self, o): return self._ew(o, lambda a, b: a - b)
    def __rsub__(self, o): return self._ew(o, lambda a, b: b - a)
    def __mul__(self, o): return self._ew(o, lambda a, b: a * b)
    def __rmul__(self, o): return self._ew(o, lambda a, b: b * a)
    def __truediv__(self, o): return self._ew(o, lambda a, b: a / b)
    def __rtruediv__(self, o): return self._ew(o, lambda a, b: b / a)
    def __pow__(self, o): return self._ew(o, lambda a, b: a ** b)
    def __neg__(self): return SymArr([-a for a in self.items])
    __hash__ = None
    __eq__ = _unm("__eq__")
    __ne__ = _unm("__ne__")
    __lt__ = _unm("__lt__")
    __le__ = _unm("__le__")
    __gt__ = _unm("__gt__")
    __ge__ = _unm("__ge__")
    __bool__ = _unm("__bool__")
    __array__ = _unm("__array__")
    __array_ufunc__ = None

    def __repr__(self):
        return "SymArr(%r)" % (self.items,)


# ---------------------------------------------------------------------------
# equality of observable values

def sym_eq(a, b):
    """Return a z3 Bool / Python bool stating a == b for (nested) observable
    values.  Structure mismatches give False."""
    if a is None or b is None:
        return a is b           # an unassigned variable equals only an unassigned variable
    if isinstance(a, SymArr) or isinstance(b, SymArr):
        if not (isinstance(a, SymArr) and isinstance(b, SymArr)):
            return False
        if len(a.items) != len(b.items):
            return False
        return z3_and([sym_eq(x, y) for x, y in zip(a.items, b.items)])
    if isinstance(a, (tuple, list)) or isinstance(b, (tuple, list)):
        if not (isinstance(a, (tuple, list)) and isinstance(b, (tuple, list))):
            return False
        if len(a) != len(b):
            return False
        return z3_and([sym_eq(x, y) for x, y in zip(a, b)])
    if isinstance(a, SymBool) or isinstance(b, SymBool):
        if isinstance(a, (SymBool, bool)) and isinstance(b, (SymBool, bool)):
            return lift_bool(a) == lift_bool(b)
        # bool vs number: compare as numbers, but types differ observably
        return False
    if isinstance(a, SymNum) or isinstance(b, SymNum):
        if isinstance(a, bool) or isinstance(b, bool):
            return False
        try:
            x, y = _coerce2(lift(a), lift(b))
        except Unmodelled:
            return False
        return x == y
    if type(a) is not type(b):
        # numbers compare by value (int vs float is outside the claim: the
        # integer model has one numeric sort); bools only equal bools
        if _is_plain_number(a) and _is_plain_number(b):
            import math
            if isinstance(a, float) and math.isnan(a):
                return isinstance(b, float) and math.isnan(b)
            return bool(a == b)
        return False
    if isinstance(a, float):
        import math
        if math.isnan(a) or math.isnan(b):
            return math.isnan(a) and math.isnan(b)
    try:
        import numpy as np
        if isinstance(a, np.ndarray):
            return a.shape == b.shape and bool((a == b).all())
    except ImportError:
        pass
    return bool(a == b)


def sym_close(a, b, tol="1/1000000000"):
    """a and b agree up to a relative tolerance (|a - b| <= tol * max(1, |a|, |b|)), element by element; None where the
    structure is not numeric (the caller keeps its exact verdict).  Used by the real-number model: exact rational
    arithmetic also sees differences of one unit in the last place that come from folding constants in floating point
    (2.5e-06*2.5e-06 is 6.250000000000001e-12 in Python), which are outside the claim."""
    if isinstance(a, (SymArr, tuple, list)) or isinstance(b, (SymArr, tuple, list)):
        xa = a.items if isinstance(a, SymArr) else a
        xb = b.items if isinstance(b, SymArr) else b
        if not isinstance(xa, (tuple, list)) or not isinstance(xb, (tuple, list)) or len(xa) != len(xb):
            return None
        parts = [sym_close(x, y, tol) for x, y in zip(xa, xb)]
        if any(p is None for p in parts):
            return None
        return z3_and(parts)
    if isinstance(a, (bool, SymBool)) or isinstance(b, (bool, SymBool)):
        return None
    if not (isinstance(a, SymNum) or isinstance(b, SymNum)):
        return None
    try:
        x, y = _coerce2(lift(a), lift(b))
    except Unmodelled:
        return None
    if x.sort() != REAL:
        return None
    t = z3.RealVal(tol)
    ax = z3.If(x >= 0, x, -x)
    ay = z3.If(y >= 0, y, -y)
    m = z3.If(ax >= ay, ax, ay)
    m = z3.If(m >= 1, m, z3.RealVal(1))
    return z3.And(x - y <= t * m, y - x <= t * m)


def _is_plain_number(x):
    if isinstance(x, bool):
        return False
    if isinstance(x, (int, float)):
        return True
    from fractions import Fraction
    if isinstance(x, Fraction):
        return True
    try:
        import numpy as np
        return isinstance(x, (np.integer, np.floating)) and not isinstance(x, np.bool_)
    except ImportError:
        return False


def z3_and(xs):
    out = []
    for x in xs:
        if isinstance(x, bool):
            if not x:
                return False
        else:
            out.append(x)
    if not out:
        return True
    return z3.And(*out) if len(out) > 1 else out[0]


def z3_or(xs):
    out = []
    for x in xs:
        if isinstance(x, bool):
            if x:
                return True
        else:
            out.append(x)
    if not out:
        return False
    return z3.Or(*out) if len(out) > 1 else out[0]


def z3_not(x):
    if isinstance(x, bool):
        return not x
    return z3.Not(x)


def model_value(model, term):
    """Concrete Python value of a z3 term under a model."""
    v = model.eval(term, model_completion=True)
    if z3.is_int_value(v):
        return v.as_long()
    if z3.is_rational_value(v):
        from fractions import Fraction
        return Fraction(v.numerator_as_long(), v.denominator_as_long())
    if z3.is_true(v):
        return True
    if z3.is_false(v):
        return False
    if z3.is_algebraic_value(v):
        return float(v.approx(12).as_fraction())
    return str(v)


def concretize(val, model):
    if isinstance(val, SymNum):
        return model_value(model, val.t)
    if isinstance(val, SymBool):
        return model_value(model, val.t)
    if isinstance(val, SymArr):
        return [concretize(x, model) for x in val.items]
    if isinstance(val, (list, tuple)):
        return type(val)(concretize(x, model) for x in val)
    return val


def uf_table(model, f, default_ok=True):
    """Extract (entries, else_value) of an uninterpreted function from a
    model as plain Python data."""
    try:
        interp = model[f]
        if interp is None:
            return {}, 0
        n_entries = interp.num_entries()
    except z3.Z3Exception:
        return {}, 0
    entries = {}
    for i in range(n_entries):
        e = interp.entry(i)
        args = tuple(model_value(model, e.arg_value(j))
                     for j in range(e.num_args()))
        entries[args] = model_value(model, e.value())
    els = interp.else_value()
    try:
        els = model_value(model, els)
    except Exception:
        els = 0
    if not isinstance(els, (int, bool)) and not hasattr(els, "numerator"):
        els = 0
    return entries, els
