"""PG -- the builder-level program family.

prog = {"phases": [{"name":, "next":, "ops": [...]}, ...], "initial": name}
ops:
  ["assign", lhs, exprDSL, loops]         lhs: name | ["sub", name, idxDSL]
  ["assign_call", [assignees], fname, [args], {kw}]
  ["if", cform, body_ops, else_ops|None]  cform: ["expr", condDSL] | ["cmp3", lhsDSL, op, rhsDSL, as_str_flags]
  ["yield", exprDSL, component, timeDSL, time_id]
  ["fail"]  ["switch", phase]  ["restart"]  ["raise", clsname, msg]
"""
import itertools
import random

from vf import exprdsl, stmtdsl

V = lambda n: ["v", n]   # noqa
C = lambda c: ["c", c]   # noqa
ADD = lambda *a: ["+"] + list(a)  # noqa
MUL = lambda *a: ["*"] + list(a)  # noqa
LT = lambda a, b: ["cmp", "<", a, b]  # noqa
GT = lambda a, b: ["cmp", ">", a, b]  # noqa


def apply_ops(cb, ops, as_strings=False):
    """Replay DSL ops on a real CodeBuilder."""
    from pymbolic.primitives import Variable, Subscript
    for op in ops:
        k = op[0]
        if k == "assign":
            _, lhs, e, loops = op[:4]
            if isinstance(lhs, str):
                l = Variable(lhs)
            else:
                l = Subscript(Variable(lhs[1]), exprdsl.build(lhs[2]))
            cb.assign(l, exprdsl.build(e),
                      loops=[(i, exprdsl.build(lo), exprdsl.build(hi)) for i, lo, hi in loops])
        elif k == "assign_call":
            _, assignees, fname, args, kws = op[:5]
            call = exprdsl.build(["call", fname, args, kws])
            cb.assign(tuple(Variable(a) for a in assignees), call)
        elif k == "if":
            _, cform, body, els = op[:4]
            if cform[0] == "expr":
                ctx = cb.if_(exprdsl.build(cform[1]))
            else:
                _, l, o, r, flags = cform
                le, re_ = exprdsl.build(l), exprdsl.build(r)
                if flags[0]:
                    le = str(le)
                if flags[1]:
                    re_ = str(re_)
                ctx = cb.if_(le, o, re_)
            with ctx:
                apply_ops(cb, body)
            if els is not None:
                with cb.else_():
                    apply_ops(cb, els)
        elif k == "yield":
            _, e, comp, t, tid = op[:5]
            cb.yield_state(exprdsl.build(e), comp, exprdsl.build(t), tid)
        elif k == "fail":
            cb.fail_step()
        elif k == "switch":
            cb.switch_phase(op[1])
        elif k == "restart":
            cb.restart_step()
        elif k == "raise":
            cb.raise_(stmtdsl.ERR_CLASSES[op[1]], op[2])
        else:
            raise ValueError(op)


def build_dag(prog):
    import dagrt.language as L
    phases = []
    builders = {}
    for ph in prog["phases"]:
        if prog.get("shared_builder_label"):
            # every phase is built by a CodeBuilder with the SAME label: statement ids coincide across phases
            # (nothing in dagrt requires ids to be unique across phases)
            cb = L.CodeBuilder(prog["shared_builder_label"])
            apply_ops(cb, ph["ops"])
            builders[ph["name"]] = cb
            phases.append(L.ExecutionPhase(name=ph["name"], next_phase=ph["next"], statements=frozenset(cb.statements)))
            continue
        cb = L.CodeBuilder(ph["name"])
        apply_ops(cb, ph["ops"])
        builders[ph["name"]] = cb
        phases.append(cb.as_execution_phase(ph["next"]))
    return L.DAGCode.from_phases_list(phases, prog["initial"]), builders


# ---------------------------------------------------------------------------
# static facts about a program

def op_exprs(op):
    k = op[0]
    if k == "assign":
        out = [op[2]]
        if not isinstance(op[1], str):
            out.append(op[1][2])
        for i, lo, hi in op[3]:
            out += [lo, hi]
        return out
    if k == "assign_call":
        return list(op[3]) + list(op[4].values())
    if k == "if":
        cf = op[1]
        return [cf[1]] if cf[0] == "expr" else [cf[1], cf[3]]
    if k == "yield":
        return [op[1], op[3]]
    return []


def walk_ops(ops):
    for op in ops:
        yield op
        if op[0] == "if":
            yield from walk_ops(op[2])
            if op[3] is not None:
                yield from walk_ops(op[3])


def var_roles(prog):
    """name -> 'num' | 'arr' | 'bool' for every variable the program mentions."""
    acc = {}
    for ph in prog["phases"]:
        for op in walk_ops(ph["ops"]):
            for e in op_exprs(op):
                stmtdsl.dsl_vars(e, None, "num", acc)
            if op[0] == "assign":
                if not isinstance(op[1], str):
                    acc[op[1][1]] = "arr"
                else:
                    acc.setdefault(op[1], "num")
            if op[0] == "assign_call":
                for a in op[1]:
                    acc.setdefault(a, "num")
    return acc


def functions_used(prog):
    out = set()
    for ph in prog["phases"]:
        for op in walk_ops(ph["ops"]):
            if op[0] == "assign_call":
                out.add((op[2], len(op[1])))
            for e in op_exprs(op):
                for _, s in exprdsl.subterms(e):
                    if s[0] == "call":
                        out.add((s[1], 1))
    return out


def loop_bound_vars(prog):
    out = set()
    for ph in prog["phases"]:
        for op in walk_ops(ph["ops"]):
            if op[0] == "assign":
                for i, lo, hi in op[3]:
                    out |= set(stmtdsl.dsl_vars(lo)) | set(stmtdsl.dsl_vars(hi))
    return out


def _count_nodes(e, cls):
    from pymbolic.mapper.dependency import DependencyMapper  # noqa: F401 (pymbolic present)
    import pymbolic.primitives as p
    n = 0
    stack = [e]
    while stack:
        x = stack.pop()
        if isinstance(x, cls):
            n += 1
        if isinstance(x, p.ExpressionNode):
            for f in x.__getinitargs__() if hasattr(x, "__getinitargs__") else ():
                stack.append(f)
        elif isinstance(x, (tuple, list)):
            stack.extend(x)
        elif hasattr(x, "values") and not isinstance(x, (str, bytes)):
            try:
                stack.extend(x.values())
            except TypeError:
                pass
    return n


def flatten_drops(e_dsl, what):
    """Does pymbolic's flatten (applied by dagrt.language.Assign to its right-hand
    side) remove a node of kind *what* ('sub' | 'call') from the written expression?
    x*0 -> 0 and 0/x -> 0 discard the other factors without evaluating them."""
    import pymbolic.primitives as p
    from pymbolic.mapper.flattener import flatten
    cls = {"sub": p.Subscript, "call": (p.Call, p.CallWithKwargs)}[what]
    e = exprdsl.build(e_dsl)
    try:
        f = flatten(e)
    except Exception:  # noqa
        return False
    return _count_nodes(f, cls) < _count_nodes(e, cls)


def prog_flatten_drops(prog, what, phase=None):
    for ph in prog["phases"]:
        if phase is not None and ph["name"] != phase:
            continue
        for op in walk_ops(ph["ops"]):
            for e in op_exprs(op):
                for _, s in exprdsl.subterms(e):
                    if s[0] in ("*", "/") and flatten_drops(s, what):
                        return True
    return False


def count_ops(prog):
    return sum(1 for ph in prog["phases"] for _ in walk_ops(ph["ops"]))


def P1(ops, name="main", nxt=None):
    return {"phases": [{"name": name, "next": nxt or name, "ops": ops}], "initial": name}


# ---------------------------------------------------------------------------
# curated corpus

Y, Z, T, DT = V("<state>y"), V("<state>z"), V("<t>"), V("<dt>")
STEP = ["assign", "<t>", ADD(T, DT), []]


def yld(e, comp="y", tid="final", t=None):
    return ["yield", e, comp, t or T, tid]


def corpus():
    progs = []

    def add(name, prog):
        prog = dict(prog)
        prog["name"] = name
        progs.append(prog)

    add("assign_chain", P1([["assign", "a", ADD(Y, C(1)), []], ["assign", "b", MUL(V("a"), C(2)), []],
                            ["assign", "<state>y", V("b"), []], yld(Y), STEP]))
    add("if_else_fail", P1([
        ["if", ["expr", GT(Y, C(0))], [
            ["if", ["expr", GT(Y, C(5))], [["assign", "<state>y", ADD(Y, C(-5)), []]],
             [["assign", "<state>y", ADD(Y, C(100)), []], ["fail"]]]],
         [["assign", "<state>y", ADD(C(0), MUL(C(-1), Y)), []]]],
        yld(ADD(MUL(Y, C(2)), ["call", "<func>f", [Y, C(3)], {}])), STEP]))
    add("nested_else_then_fail", P1([
        ["assign", "a", ADD(Y, C(1)), []],
        ["if", ["expr", LT(V("a"), C(3))], [
            ["if", ["expr", LT(V("a"), C(0))], [["assign", "<state>z", C(1), []]], [["assign", "<state>z", C(2), []]]]],
         [["assign", "<state>z", C(3), []]]],
        ["if", ["expr", GT(Z, C(2))], [["fail"]], None],
        ["assign", "<state>y", ADD(Y, Z), []], yld(Y), STEP]))
    add("write_ordering", P1([
        ["assign", "<state>y", C(1), []], ["assign", "a", Y, []], ["assign", "<state>y", C(2), []],
        ["assign", "b", ADD(Y, V("a")), []], ["assign", "<state>y", V("b"), []], yld(Y), STEP]))
    add("restart_step", P1([
        ["if", ["expr", LT(Y, C(3))], [["assign", "<state>y", ADD(Y, C(1)), []], ["restart"]], None],
        yld(Y), STEP]))
    add("zero_trip_loop", P1([
        ["assign", "<state>v", ADD(V("i"), C(1)), [["i", C(0), C(0)]]],
        ["assign", ["sub", "<state>v", V("i")], C(7), [["i", C(2), C(1)]]],
        yld(["sub", Y if False else V("<state>v"), C(0)]), STEP]))
    add("loop_bound_in_variable", P1([
        ["assign", "n", C(2), []],
        ["assign", ["sub", "<state>v", V("i")], ADD(V("i"), Y), [["i", C(0), V("n")]]],
        ["assign", "n", C(1), []],
        yld(["sub", V("<state>v"), C(1)]), STEP]))
    add("symbolic_trip_count", P1([
        ["assign", ["sub", "<state>v", V("i")], MUL(V("i"), C(2)), [["i", C(0), V("<state>n")]]],
        yld(ADD(["sub", V("<state>v"), C(0)], ["sub", V("<state>v"), C(2)])), STEP]))
    add("index_in_variable", P1([
        ["assign", "j", C(1), []], ["assign", ["sub", "<state>v", V("j")], C(7), []], ["assign", "j", C(2), []],
        ["assign", ["sub", "<state>v", V("j")], ADD(["sub", V("<state>v"), C(1)], C(1)), []],
        yld(["sub", V("<state>v"), C(2)]), STEP]))
    add("nested_loops", P1([
        ["assign", ["sub", "<state>v", V("i")], ADD(V("i"), V("j")), [["i", C(0), C(3)], ["j", C(0), C(2)]]],
        yld(["sub", V("<state>v"), C(2)]), STEP]))
    add("self_dependent_loop", P1([
        ["assign", "acc", C(0), []],
        ["assign", "acc", ADD(V("acc"), ["sub", V("<state>v"), V("i")]), [["i", C(0), C(3)]]],
        ["assign", "<state>y", V("acc"), []], yld(Y), STEP]))
    add("cond_expr_nested", P1([
        ["assign", "<state>y", ["if", LT(Y, C(0)), ["if", LT(Z, C(0)), C(1), C(2)], ["if", GT(Z, C(5)), C(3), Y]], []],
        ["assign", "a", ["if", ["if", LT(Y, C(2)), LT(Z, C(1)), GT(Z, C(1))], C(10), C(20)], []],
        yld(ADD(Y, V("a"))), STEP]))
    add("cond_expr_as_argument", P1([
        ["assign", "a", ["call", "<func>f", [["if", LT(Y, C(0)), C(1), C(2)], Z], {}], []],
        ["assign", "b", ["call", "<func>f", [Z, ["if", LT(Y, C(0)), C(1), C(2)]], {}], []],
        yld(ADD(V("a"), V("b"))), STEP]))
    add("not_equal_and_logic", P1([
        ["if", ["expr", ["and", ["cmp", "!=", Y, C(0)], ["or", LT(Z, C(0)), ["not", GT(Y, C(3))]]]],
         [["assign", "<state>y", C(0), []]], [["assign", "<state>z", ADD(Z, C(1)), []]]],
        yld(ADD(Y, Z)), STEP]))
    add("powers", P1([
        ["assign", "a", ["**", Y, C(2)], []], ["assign", "b", ["**", C(-2), C(2)], []],
        ["assign", "c", ["**", C(-3), Y], []], ["assign", "d", ["**", ["**", Y, C(2)], C(3)], []],
        ["assign", "e", ["**", Y, ["**", C(2), C(3)]], []],
        yld(ADD(V("a"), V("b"), V("c"), V("d"), V("e"))), STEP]))
    add("quotients_and_precedence", P1([
        ["assign", "a", ["/", ADD(Y, C(1)), ADD(Z, C(2))], []],
        ["assign", "b", MUL(ADD(Y, C(1)), ADD(Z, C(-2))), []],
        ["assign", "c", ["/", Y, ["/", Z, C(3)]], []],
        ["assign", "d", ADD(Y, MUL(C(-1), ADD(Z, MUL(C(-1), Y)))), []],
        yld(ADD(V("a"), V("b"), V("c"), V("d"))), STEP]))
    add("literals", P1([
        ["assign", "<state>y", ADD(MUL(C(0.5), Y), C(1e-05), MUL(C("np:2.0"), Y), C("inf")), []],
        ["assign", "flag", C(True), []],
        ["if", ["expr", V("flag")], [["assign", "<state>z", C(-1), []]], None],
        yld(ADD(Y, Z)), STEP]))
    add("min_max", P1([
        ["assign", "a", ["min", Y, Z], []], ["assign", "b", ["max", Y, ["min", Z, C(3)]], []],
        yld(ADD(V("a"), MUL(C(10), V("b")))), STEP]))
    add("calls_kw", P1([
        ["assign_call", ["a"], "<func>f", [Y], {"k": Z}],
        ["assign", "b", ["call", "<func>f", [V("a")], {"k": ["call", "<func>g", [Z], {}]}], []],
        ["assign_call", ["c", "d"], "<func>h2", [V("b")], {"k": Y}],
        ["assign", "<state>y", ADD(V("c"), V("d")), []], yld(Y), STEP]))
    add("cmp3_forms", P1([
        ["if", ["cmp3", Y, "<", C(3), [False, False]], [["assign", "<state>y", ADD(Y, C(1)), []]], None],
        ["if", ["cmp3", Y, ">", Z, [True, False]], [["assign", "<state>z", ADD(Z, C(1)), []]], None],
        ["if", ["cmp3", Y, ">=", ADD(Z, C(2)), [True, True]], [["assign", "<state>z", ADD(Z, C(10)), []]],
         [["assign", "<state>z", ADD(Z, C(20)), []]]],
        ["if", ["cmp3", Y, "==", Z, [False, True]], [["assign", "<state>y", C(0), []]], None],
        yld(ADD(Y, Z)), STEP]))
    add("generated_looking_names", P1([
        ["assign", "<cond>", ADD(Y, C(1)), []], ["assign", "temp", ADD(V("<cond>"), C(1)), []],
        ["assign", "<cond>_0", C(5), []],
        ["if", ["expr", GT(V("temp"), C(2))], [["assign", "<state>y", ADD(V("<cond>_0"), V("temp")), []]], None],
        ["assign", "tmp", Y, []], ["assign", "ifthenelse_result", MUL(V("tmp"), C(2)), []],
        yld(V("ifthenelse_result")), STEP]))
    add("yield_multi", P1([
        yld(Y, comp="y", tid="start"), ["assign", "<state>y", ADD(Y, C(1)), []],
        yld(Y, comp="y", tid="mid", t=ADD(T, DT)), ["assign", "<state>z", Y, []],
        yld(Z, comp="z", tid="final"), STEP]))
    add("raise_conditional", P1([
        ["assign", "<state>y", ADD(Y, C(1)), []],
        ["if", ["expr", GT(Y, C(2))], [yld(Y), ["raise", "ErrA", "too big"]], None],
        yld(Y), STEP]))
    add("fail_then_continue", P1([
        ["assign", "<state>y", ADD(Y, C(1)), []],
        ["if", ["expr", ["cmp", "==", Y, C(2)]], [["assign", "<dt>", MUL(DT, C(2)), []], ["fail"]], None],
        ["assign", "<state>z", ADD(Z, Y), []], yld(Z), STEP]))
    add("three_phases", {"phases": [
        {"name": "init", "next": "main", "ops": [["assign", "<p>k", ADD(Y, C(1)), []], yld(V("<p>k"), tid="init")]},
        {"name": "main", "next": "main", "ops": [
            ["assign", "<state>y", ADD(Y, V("<p>k")), []],
            ["if", ["expr", GT(Y, C(4))], [["switch", "cool"]], None],
            ["if", ["expr", LT(Y, C(-4))], [["fail"]], None],
            yld(Y), STEP]},
        {"name": "cool", "next": "init", "ops": [["assign", "<state>y", C(0), []], yld(Y, tid="cool"),
                                                 ["if", ["expr", GT(Z, C(0))], [["raise", "ErrB", None]], None]]},
    ], "initial": "init"})
    add("switch_mid_phase", {"phases": [
        {"name": "a", "next": "a", "ops": [["assign", "<state>y", ADD(Y, C(1)), []], ["switch", "b"],
                                           ["assign", "<state>y", ADD(Y, C(100)), []]]},
        {"name": "b", "next": "a", "ops": [["assign", "<state>z", ADD(Z, Y), []], yld(Z), STEP]},
    ], "initial": "a"})
    add("state_update_after_yield", P1([
        yld(Y), ["assign", "<state>y", ADD(Y, C(1)), []],
        ["if", ["expr", GT(Y, C(3))], [["fail"]], None],
        ["assign", "<state>y", ADD(Y, C(1)), []], STEP]))
    add("builtin_len_norm", P1([
        ["assign", "n", ["call", "<builtin>len", [V("<state>v")], {}], []],
        ["assign", "m", ["call", "<builtin>norm_2", [V("<state>v")], {}], []],
        ["assign", "k", ["call", "<builtin>norm_2", [], {"x": V("<state>v")}], []],
        ["assign", "<state>y", ADD(V("n"), V("m"), V("k")), []], yld(Y), STEP]))
    add("guard_reassigned_var", P1([
        ["assign", "a", Y, []],
        ["if", ["expr", GT(V("a"), C(0))], [["assign", "a", C(-1), []], ["assign", "<state>y", V("a"), []]],
         [["assign", "a", C(5), []], ["assign", "<state>z", V("a"), []]]],
        yld(ADD(Y, Z)), STEP]))
    # the condition is a BARE variable that the block itself reassigns (the "first time" flag idiom): the guard is the value
    # the variable had at the if_, for the whole block and for the else branch
    add("bare_flag_reassigned_in_block", P1([
        ["if", ["expr", V("<p>k")], [["assign", "<p>k", C(0), []], yld(C(10), tid="boot"), ["assign", "<state>y", C(10), []]],
         [["assign", "<state>y", ADD(Y, C(1)), []], ["assign", "<p>k", Z, []]]],
        yld(Y), STEP]))
    add("bare_flag_reassigned_no_else", P1([
        ["assign", "a", Y, []],
        ["if", ["expr", V("a")], [["assign", "a", C(0), []], ["assign", "<state>z", ADD(Z, C(1)), []],
                                   ["if", ["expr", V("<state>z")], [["assign", "<state>z", C(0), []], ["assign", "<state>y", C(7), []]], None]], None],
        yld(ADD(Y, Z)), STEP]))
    # a phase of more than ten statements with a barrier early on (statement ids are "<phase>_<n>": "main_10" < "main_2" as strings)
    long_ops = [["assign", "k1", ADD(Y, C(1)), []], ["assign", "k2", MUL(V("k1"), C(2)), []], yld(V("k2"), tid="early")]
    prev = "k2"
    for j in range(3, 14):
        long_ops.append(["assign", "k%d" % j, ADD(V(prev), C(j)), []])
        prev = "k%d" % j
    long_ops += [["assign", "<state>y", V(prev), []], yld(Y), STEP]
    add("long_phase_with_early_barrier", P1(long_ops))
    add("temp_reused_across_branches", P1([
        ["if", ["expr", GT(Y, C(0))], [["assign", "w", C(1), []]], [["assign", "w", C(2), []]]],
        ["assign", "<state>y", ADD(Y, V("w")), []],
        ["if", ["expr", GT(Y, C(3))], [["assign", "w", C(3), []], ["assign", "<state>z", V("w"), []]], None],
        yld(ADD(Y, Z)), STEP]))
    add("dt_change_and_time", P1([
        ["assign", "<dt>", MUL(DT, C(2)), []], ["assign", "<t>", ADD(T, DT), []],
        yld(T, t=ADD(T, MUL(C(-1), DT)))]))
    return progs


# ---------------------------------------------------------------------------
# random generation (validity predicate maintained by construction)

class ProgGen:
    def __init__(self, rng, multi_phase=True, max_ops=8, arrays=True, calls=True, loops=True,
                 float_literals=False, targets=None, call_targets=None, inputs=None, control=True,
                 scalar_loops=False, pair_targets=None, lookups=False, bare_conditions=False):
        self.rng = rng
        # opt-in (C07): two-assignee calls over these pairs whose arguments read the assignees themselves
        self.pair_targets = pair_targets
        self.lookups = lookups      # opt-in: attribute lookups z.real / z.imag / v.size
        self.bare_conditions = bare_conditions   # opt-in: if_(<variable>) whose block reassigns the variable
        self.multi_phase = multi_phase
        self.max_ops = max_ops
        self.arrays = arrays
        self.calls = calls
        self.loops = loops
        self.float_literals = float_literals
        self.targets = targets or ["a", "b", "c", "<state>y", "<state>z", "<p>k", "<dt>"]
        self.call_targets = call_targets or ["a", "c", "<state>z"]
        self.inputs = inputs or {"<state>y": "num", "<state>z": "num", "<t>": "num", "<dt>": "num", "<state>n": "num"}
        self.control = control
        self.scalar_loops = scalar_loops

    def expr_gen(self, defined):
        nums = sorted(n for n in defined if defined[n] == "num")
        ops = ["+", "*", "cmp", "if", "min", "max", "/", "**", "not", "and", "or"]
        if self.calls:
            ops += ["call", "callkw"]
        arrays = [n for n in defined if defined[n] == "arr"] if self.arrays else []
        if arrays:
            ops.append("sub")
        if self.lookups:
            ops.append("attr")
        g = exprdsl.Gen(self.rng, vars_num=nums, consts=(0, 1, 2, -1, 3),
                        funcs=("<func>f", "<func>g"), arrays=arrays, kwnames=("k", "m"), ops=ops,
                        float_consts=(0.5,) if self.float_literals else (), literal_exponents=True)
        return g

    def index_expr(self, defined):
        # indices stay in range under the assumptions (0..2): constants or
        # loop-free small expressions
        return C(self.rng.choice([0, 1, 2]))

    def gen_ops(self, defined, budget, depth, phase_names, in_loop_ok=True):
        ops = []
        rng = self.rng
        while budget[0] > 0:
            budget[0] -= 1
            r = rng.random()
            g = self.expr_gen(defined)
            ed = rng.choice([0, 1, 1, 2])
            if r < 0.45:
                # assignment
                kind = rng.random()
                if kind < 0.2 and self.arrays and self.loops:
                    arr = "<state>v"
                    lo = rng.choice([C(0), C(1)])
                    hi = rng.choice([C(2), C(3), C(0), V("<state>n")])
                    defined2 = dict(defined)
                    defined2["i"] = "num"
                    g2 = self.expr_gen(defined2)
                    ops.append(["assign", ["sub", arr, V("i")], g2.num(ed), [["i", lo, hi]]])
                elif kind < 0.3 and self.arrays:
                    e = g.num(ed)
                    if e[0] == "call":
                        # the builder (documented) refuses a subscripted assignee for a top-level call
                        e = ADD(e, C(0))
                    ops.append(["assign", ["sub", "<state>v", self.index_expr(defined)], e, []])
                elif kind < 0.45 and self.scalar_loops and "acc" in defined:
                    defined2 = dict(defined)
                    defined2["i"] = "num"
                    g2 = self.expr_gen(defined2)
                    ops.append(["assign", "acc", ADD(V("acc"), g2.num(min(ed, 1))), [["i", C(0), rng.choice([C(2), C(3), C(0)])]]])
                else:
                    tgt = rng.choice(self.targets)
                    ops.append(["assign", tgt, g.num(ed), []])
                    defined[tgt] = "num"
            elif r < 0.55 and self.calls:
                if rng.random() < 0.3:
                    if self.pair_targets:
                        x, y = rng.choice(self.pair_targets)
                        args = [V(n) for n in (x, y) if defined.get(n) == "num"] if rng.random() < 0.6 else []
                        ops.append(["assign_call", [x, y], "<func>h2", args or [g.num(0)], {}])
                        defined[x] = defined[y] = "num"
                        continue
                    ops.append(["assign_call", ["a", "b"], "<func>h2", [g.num(0)], {}])
                    defined["a"] = defined["b"] = "num"
                else:
                    tgt = rng.choice(self.call_targets)
                    kws = {"k": g.num(0)} if rng.random() < 0.4 else {}
                    ops.append(["assign_call", [tgt], rng.choice(["<func>f", "<func>g"]), [g.num(ed)], kws])
                    defined[tgt] = "num"
            elif r < 0.75 and depth < 3 and budget[0] > 0:
                cform = ["expr", g.boolean(rng.choice([0, 1]))]
                bare = None
                if self.bare_conditions and rng.random() < 0.15:
                    nums_ = sorted(n for n in defined if defined[n] == "num" and n not in ("<t>", "<dt>"))
                    if nums_:
                        bare = rng.choice(nums_)
                        cform = ["expr", V(bare)]
                elif rng.random() < 0.2:
                    cform = ["cmp3", g.num(0), rng.choice(["<", ">", "==", "!=", "<=", ">="]), g.num(0),
                             [rng.random() < 0.3, rng.random() < 0.3]]
                    if any(f for f in cform[4]) and ("-" in str(exprdsl.build(cform[1])) + str(exprdsl.build(cform[3]))):
                        cform[4] = [False, False]
                d1 = dict(defined)
                b1 = [max(1, rng.randint(1, max(1, budget[0])))]
                budget[0] -= min(b1[0], budget[0])
                body = self.gen_ops(d1, b1, depth + 1, phase_names)
                if bare is not None and rng.random() < 0.7:
                    body = [["assign", bare, rng.choice([C(0), C(1), g.num(0)]), []]] + body
                els = None
                d2 = dict(defined)
                if rng.random() < 0.5 and budget[0] > 0:
                    b2 = [rng.randint(1, max(1, budget[0]))]
                    budget[0] -= min(b2[0], budget[0])
                    els = self.gen_ops(d2, b2, depth + 1, phase_names)
                ops.append(["if", cform, body, els])
                # definitely assigned after the if: in both branches
                if els is not None:
                    for n in d1:
                        if n in d2 and n not in defined:
                            defined[n] = d1[n]
            elif r < 0.87:
                comp = rng.choice(["y", "z"])
                ops.append(["yield", g.num(ed), comp, rng.choice([T, ADD(T, DT)]), rng.choice(["final", "mid"])])
            elif not self.control:
                continue
            elif r < 0.92 and depth > 0:
                ops.append(["fail"])
                break
            elif r < 0.96 and depth > 0 and len(phase_names) > 1:
                ops.append(["switch", rng.choice(phase_names)])
                break
            elif r < 0.98 and depth > 0:
                ops.append(["raise", rng.choice(["ErrA", "ErrB"]), rng.choice([None, "msg"])])
                break
            else:
                ops.append(STEP)
        return ops

    def program(self, idx):
        rng = self.rng
        nph = rng.choice([1, 1, 2, 3]) if self.multi_phase else 1
        names = ["p%d" % i for i in range(nph)]
        phases = []
        for n in names:
            defined = dict(self.inputs)
            if self.arrays:
                defined["<state>v"] = "arr"
            budget = [rng.randint(2, self.max_ops)]
            ops = self.gen_ops(defined, budget, 0, names)
            if rng.random() < 0.7:
                ops.append(STEP)
            phases.append({"name": n, "next": rng.choice(names), "ops": ops})
        return {"name": "rand%d" % idx, "phases": phases, "initial": names[0]}


def rename_vars(prog, mapping):
    """The same program with user variables renamed (deep copy)."""
    def r(x):
        if isinstance(x, list):
            if len(x) == 2 and x[0] == "v" and isinstance(x[1], str):
                return ["v", mapping.get(x[1], x[1])]
            return [r(y) for y in x]
        if isinstance(x, dict):
            return {k: r(v) for k, v in x.items()}
        return x

    def rop(op):
        k = op[0]
        if k == "assign":
            tgt = mapping.get(op[1], op[1]) if isinstance(op[1], str) else ["sub", mapping.get(op[1][1], op[1][1]), r(op[1][2])]
            return ["assign", tgt, r(op[2]), [[i, r(lo), r(hi)] for i, lo, hi in op[3]]]
        if k == "assign_call":
            return ["assign_call", [mapping.get(a, a) for a in op[1]], op[2], r(op[3]), r(op[4])]
        if k == "if":
            return ["if", r(op[1]), [rop(o) for o in op[2]], None if op[3] is None else [rop(o) for o in op[3]]]
        if k == "yield":
            return ["yield", r(op[1]), op[2], r(op[3]), op[4]]
        return list(op)
    out = dict(prog)
    out["phases"] = [dict(ph, ops=[rop(o) for o in ph["ops"]]) for ph in prog["phases"]]
    return out


def small_programs():
    """Bounded-exhaustive part: all programs of <= 3 ops over a reduced
    alphabet (single phase)."""
    atoms = [
        ["assign", "a", ADD(Y, C(1)), []],
        ["assign", "<state>y", V("a"), []],
        ["assign", "<state>y", ADD(Y, C(2)), []],
        ["assign", "a", C(5), []],
        yld(Y),
        ["fail"],
        ["assign", ["sub", "<state>v", C(1)], Y, []],
    ]
    conds = [GT(Y, C(0)), LT(Y, C(2))]
    out = []
    idx = 0

    def valid(seq):
        defined = {"<state>y"}
        for op in seq:
            for e in op_exprs(op):
                for n in stmtdsl.dsl_vars(e):
                    if n not in defined and n not in ("<state>v", "<t>", "<dt>"):
                        return False
            if op[0] == "assign" and isinstance(op[1], str):
                defined.add(op[1])
        return True

    for n in (1, 2, 3):
        for seq in itertools.product(range(len(atoms)), repeat=n):
            ops = [atoms[i] for i in seq]
            if not valid(ops):
                continue
            if ["fail"] in ops[:-1]:
                continue
            out.append(P1(ops + [STEP]))
            out[-1]["name"] = "small%d" % idx
            idx += 1
            # guarded variants: wrap the last op (or last two) in if / if-else
            if n >= 2:
                for c in conds:
                    p = P1(ops[:-1] + [["if", ["expr", c], [ops[-1]], None], yld(Y), STEP])
                    p["name"] = "small%d" % idx
                    idx += 1
                    out.append(p)
                if n == 3 and valid([ops[0], ops[2]]):
                    p = P1([ops[0], ["if", ["expr", conds[0]], [ops[1]], [ops[2]]], yld(Y), STEP])
                    p["name"] = "small%d" % idx
                    idx += 1
                    out.append(p)
    return out
