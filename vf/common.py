"""Shared plumbing: tree under test, evidence, known findings, replay,
parallel map, function-entry tracing."""
import hashlib
import importlib
import json
import os
import subprocess
import sys
import time
import traceback

VERIF = os.path.dirname(os.path.dirname(os.path.abspath(__file__)))
REPO = os.environ.get("VERIF_REPO", "/repo")
EXIT_OK, EXIT_VIOLATION, EXIT_HARNESS = 0, 1, 3
NPROC = int(os.environ.get("VERIF_NPROC", "16"))


def setup_paths():
    if REPO not in sys.path:
        sys.path.insert(0, REPO)
    if VERIF not in sys.path:
        sys.path.insert(0, VERIF)
    import warnings
    warnings.simplefilter("ignore")


setup_paths()


# ---------------------------------------------------------------------------
# tracing which dagrt functions were entered (the "functions encoded" list)

class FunctionTrace:
    TOOL = 3

    def __init__(self):
        self.seen = set()
        self.active = False

    def start(self):
        mon = sys.monitoring
        try:
            mon.use_tool_id(self.TOOL, "vf-trace")
        except ValueError:
            return
        prefix = os.path.join(REPO, "dagrt")

        def cb(code, offset):
            fn = code.co_filename
            if fn.startswith(prefix) and code.co_flags & 0x1:   # CO_OPTIMIZED: functions only
                self.seen.add("%s:%s" % (fn[len(REPO) + 1:], code.co_qualname))
            return mon.DISABLE

        mon.register_callback(self.TOOL, mon.events.PY_START, cb)
        mon.set_events(self.TOOL, mon.events.PY_START)
        self.active = True

    def stop(self):
        if not self.active:
            return
        mon = sys.monitoring
        mon.set_events(self.TOOL, 0)
        mon.register_callback(self.TOOL, mon.events.PY_START, None)
        mon.free_tool_id(self.TOOL)
        self.active = False


# ---------------------------------------------------------------------------
# parallel map over picklable work items

def _worker(args):
    modname, fname, item = args
    try:
        mod = importlib.import_module(modname)
        res = getattr(mod, fname)(item)
        if isinstance(res, dict):
            from vf.symx import Explorer
            c = Explorer.CROSS
            if c["asked"]:
                res.setdefault("extra", {})
                res["extra"]["cvc5_asked"] = c["asked"]
                res["extra"]["cvc5_agree"] = c["agree"]
                res["extra"]["cvc5_inconclusive"] = c["inconclusive"]
                res["extra"]["cvc5_disagreements"] = list(c["disagree"])[:2]
                c["asked"] = c["agree"] = c["inconclusive"] = 0
                c["disagree"] = []
            from vf import symx as _symx
            if _symx.TIMEOUT_LOG:
                res.setdefault("extra", {})
                res["extra"]["timed_out_explorations"] = list(_symx.TIMEOUT_LOG)
                del _symx.TIMEOUT_LOG[:]
        return ("ok", res)
    except BaseException as e:  # noqa
        return ("err", "%s: %s\n%s" % (type(e).__name__, e, traceback.format_exc()))


ITEM_CPU_BUDGET_S = int(os.environ.get("VERIF_ITEM_CPU_S", "1800"))
SOLVER_CALL_LIMIT_S = int(os.environ.get("VERIF_SOLVER_CALL_S", "90"))     # wall time one z3 call may take (timeouts are <= 10 s)
LOST_ITEMS = []      # work items whose process was stopped inside a z3 call that did not return (reported as undecided)


def _child_cpu_s(pid):
    try:
        with open("/proc/%d/stat" % pid) as f:
            parts = f.read().rsplit(")", 1)[1].split()
        return (int(parts[11]) + int(parts[12])) / os.sysconf("SC_CLK_TCK")
    except Exception:  # noqa
        return 0.0


def pmap(modname, fname, items, nproc=None, chunksize=1):
    """Run vf.checks.<mod>.<fname>(item) over items, ONE FRESHLY FORKED PROCESS PER ITEM (at most nproc at a time).
    Returns the list of results (in item order; an item lost to a solver hang is skipped and recorded in LOST_ITEMS);
    raises HarnessError on worker failure.

    Why not a pool of long-lived workers: (1) z3 keeps process-global state, so what a query costs depended on which
    items the same worker had processed before -- run-to-run variation, up to a non-terminating nlsat factorisation
    that ignores z3's own timeout; with one process per item every item starts from the parent's state and its
    verdicts are reproducible.  (2) a process that stops answering can be killed without losing the others: if its
    status byte says it is inside a z3 call, the item is counted undecided (solver did not return); if it is in Python
    (the code under test or the harness), that is a harness error."""
    import pickle
    import tempfile
    items = list(items)
    nproc = min(nproc or NPROC, max(1, len(items)))
    if os.environ.get("VERIF_SERIAL"):
        out = [_worker((modname, fname, it)) for it in items]
    else:
        from vf import symx as _symx
        tmpd = tempfile.mkdtemp(prefix="vf_pmap_")
        out = [None] * len(items)
        pending = list(range(len(items)))[::-1]
        active = {}
        errs_died = []
        try:
            while pending or active:
                while pending and len(active) < nproc:
                    i = pending.pop()
                    respath = os.path.join(tmpd, "r%d.pkl" % i)
                    stpath = os.path.join(tmpd, "s%d" % i)
                    with open(stpath, "wb") as f:
                        f.write(b"P")
                    sys.stdout.flush()
                    sys.stderr.flush()
                    pid = os.fork()
                    if pid == 0:
                        code = 1
                        try:
                            _symx.STATUS["fd"] = os.open(stpath, os.O_WRONLY)
                            r = _worker((modname, fname, items[i]))
                            with open(respath + ".tmp", "wb") as f:
                                pickle.dump(r, f)
                            os.rename(respath + ".tmp", respath)
                            code = 0
                        except BaseException:  # noqa
                            traceback.print_exc()
                        finally:
                            os._exit(code)
                    active[pid] = (i, respath, stpath)
                time.sleep(0.01)
                for pid in list(active):
                    i, respath, stpath = active[pid]
                    done, status = os.waitpid(pid, os.WNOHANG)
                    if done == 0:
                        with open(stpath, "rb") as f:
                            st_ = f.read(9)
                        in_call_s = 0.0
                        if st_[:1] == b"S" and len(st_) == 9:
                            import struct
                            in_call_s = time.time() - struct.unpack("d", st_[1:])[0]
                        if in_call_s > SOLVER_CALL_LIMIT_S or _child_cpu_s(pid) > ITEM_CPU_BUDGET_S:
                            with open(stpath, "rb") as f:
                                where = f.read(1)
                            os.kill(pid, 9)
                            os.waitpid(pid, 0)
                            del active[pid]
                            if where == b"S":
                                LOST_ITEMS.append({"function": "%s.%s" % (modname, fname), "item": i,
                                                   "reason": "stopped inside a z3 call that had not returned after %d s (solver timeout %s ignored)"
                                                             % (int(in_call_s), "was")})
                                out[i] = ("lost", None)
                            else:
                                out[i] = ("err", "item %d of %s.%s used more than %d s of CPU outside the solver (hang of the code under test "
                                                 "or of the harness)" % (i, modname, fname, ITEM_CPU_BUDGET_S))
                        continue
                    del active[pid]
                    if os.path.exists(respath):
                        with open(respath, "rb") as f:
                            out[i] = pickle.load(f)
                        os.unlink(respath)
                    else:
                        out[i] = ("err", "the process of item %d of %s.%s died (wait status %d)" % (i, modname, fname, status))
        finally:
            for pid in active:
                try:
                    os.kill(pid, 9)
                    os.waitpid(pid, 0)
                except OSError:
                    pass
            import shutil
            shutil.rmtree(tmpd, ignore_errors=True)
    res = []
    errs = []
    for tag, val in out:
        if tag == "ok":
            res.append(val)
        elif tag == "lost":
            continue
        else:
            errs.append(val)
    if errs:
        raise HarnessError("worker failure (%d):\n%s" % (len(errs), errs[0]))
    return res


class HarnessError(Exception):
    pass


def chunks(seq, n):
    """Split seq into n roughly equal interleaved chunks (drop empties)."""
    seq = list(seq)
    out = [seq[i::n] for i in range(n)]
    return [c for c in out if c]


# ---------------------------------------------------------------------------
# known findings

def load_known_findings(pid):
    path = os.path.join(VERIF, "known_findings.json")
    if not os.path.exists(path):
        return []
    with open(path) as f:
        data = json.load(f)
    return [e for e in data.get("findings", []) if e["property"] == pid]


# ---------------------------------------------------------------------------
# replay

def digest(obj):
    return hashlib.sha256(json.dumps(obj, sort_keys=True, default=str)
                          .encode()).hexdigest()[:16]


def write_replay(pid, data):
    d = os.path.join(VERIF, "replays", pid)
    os.makedirs(d, exist_ok=True)
    path = os.path.join(d, digest(data) + ".json")
    with open(path, "w") as f:
        json.dump({"property": pid, "data": data}, f, indent=1, sort_keys=True,
                  default=str)
    return path


def replay_batch(pid, datas, timeout=600):
    """Replay candidate counterexamples against the unmodified public API in
    a fresh process (no proxies, no monkey-patching).  Returns a list of
    dicts {reproduced: bool, detail: str} in order."""
    if not datas:
        return []
    tmpd = os.path.join(VERIF, "replays", "tmp")
    os.makedirs(tmpd, exist_ok=True)
    path = os.path.join(tmpd, "batch_%s_%d_%d.json" % (pid, os.getpid(),
                                                        int(time.time() * 1e3)))
    with open(path, "w") as f:
        json.dump({"property": pid, "batch": datas}, f, default=str)
    try:
        env = dict(os.environ)
        env.setdefault("PYTHONHASHSEED", "0")
        try:
            p = subprocess.run(
                [sys.executable, "-m", "vf.replay", "--batch", path],
                cwd=VERIF, capture_output=True, text=True, timeout=timeout, env=env)
        except subprocess.TimeoutExpired:
            raise HarnessError("replay of %d candidate(s) did not finish within %d s" % (len(datas), timeout))
        if False:
            pass
        if p.returncode not in (0, 1):
            raise HarnessError("replay process failed rc=%s\n%s\n%s"
                               % (p.returncode, p.stdout[-2000:], p.stderr[-4000:]))
        for line in p.stdout.splitlines():
            if line.startswith("REPLAY-RESULTS "):
                return json.loads(line[len("REPLAY-RESULTS "):])
        raise HarnessError("replay produced no result line\n%s\n%s"
                           % (p.stdout[-2000:], p.stderr[-4000:]))
    finally:
        try:
            os.unlink(path)
        except OSError:
            pass


# ---------------------------------------------------------------------------
# a check run: collects statistics, candidates, writes evidence, exit code

class Run:
    def __init__(self, pid, tier, seed, level):
        self.pid = pid
        self.tier = tier
        self.seed = seed
        self.level = level
        self.t0 = time.time()
        self.coverage = {}
        self.assumptions = []
        self.samples = []
        self.candidates = []      # list of replay-data dicts
        self.harness_errors = []
        self.functions = set()
        self.bounds = {}
        self.notes = []
        from vf.symx import Stats
        self.stats = Stats()
        self.evaluations = 0
        self.distinct_nontrivial = 0
        self.programs = 0
        self.selftests = {}
        self.extra = {}
        self.max_replay = 60

    def absorb(self, part):
        """Merge a worker's result dict."""
        from vf.symx import Stats
        if "stats" in part:
            self.stats.add(Stats.from_dict(part["stats"]))
        self.candidates.extend(part.get("candidates", []))
        self.harness_errors.extend(part.get("harness_errors", []))
        self.functions.update(part.get("functions", []))
        self.evaluations += part.get("evaluations", 0)
        self.distinct_nontrivial += part.get("distinct_nontrivial", 0)
        self.programs += part.get("programs", 0)
        for s in part.get("samples", []):
            if len(self.samples) < 8:
                self.samples.append(s)
        for k, v in part.get("extra", {}).items():
            if isinstance(v, (int, float)):
                self.extra[k] = self.extra.get(k, 0) + v
            elif isinstance(v, list):
                self.extra.setdefault(k, [])
                for x in v:
                    if len(self.extra[k]) < 20:
                        self.extra[k].append(x)
            else:
                self.extra[k] = v

    def finish(self, rule, explanation, exhaustive=False, classify=None,
               max_report=5, dedup_key=None):
        """Replay candidates, match known findings, write evidence, print the
        verdict lines, return the exit code."""
        known = load_known_findings(self.pid)
        open_known = [k for k in known if k.get("status") == "open"]
        violations = []      # (data, detail)
        known_hits = {}      # finding id -> count
        unconfirmed = 0
        # de-duplicate candidates
        uniq = {}
        for c in self.candidates:
            key = dedup_key(c) if dedup_key else digest(c)
            uniq.setdefault(key, c)
        cands = list(uniq.values())
        not_replayed = 0
        if len(cands) > self.max_replay:
            # enough witnesses: the remaining candidates are neither reported nor counted as unconfirmed
            not_replayed = len(cands) - self.max_replay
            cands = cands[:self.max_replay]
        results = []
        if cands:
            try:
                B = 200
                for i in range(0, len(cands), B):
                    results.extend(replay_batch(self.pid, cands[i:i + B]))
            except HarnessError as e:
                self.harness_errors.append(str(e))
                results = [{"reproduced": False, "detail": "replay failed"}] * len(cands)
        soft_unconfirmed = 0
        for c, r in zip(cands, results):
            if not r.get("reproduced") and c.get("_soft"):
                # from a path with an undecided fork or an abstracted product: the solver's model proved nothing and the
                # concrete replay found nothing -- undecided, not an encoding defect
                soft_unconfirmed += 1
                if soft_unconfirmed <= 3:
                    write_replay(self.pid + "_soft", c)       # kept for inspection; not an error
                continue
            if not r.get("reproduced"):
                unconfirmed += 1
                if len(self.notes) < 5:
                    self.notes.append({"unconfirmed_candidate": c,
                                       "detail": r.get("detail"),
                                       "file": write_replay(self.pid + "_unconfirmed", c)})
                continue
            fid = None
            if classify is not None:
                fid = classify(c, r, open_known)
            if fid is not None:
                known_hits[fid] = known_hits.get(fid, 0) + 1
            else:
                violations.append((c, r.get("detail")))
        wall = time.time() - self.t0
        st = self.stats.as_dict()
        cov = dict(self.coverage)
        cov.update({
            "evaluations": max(self.evaluations, 0),
            "distinct_nontrivial": self.distinct_nontrivial,
            "rule": rule,
            "samples": self.samples if self.samples else ["(none)"],
            "explanation": explanation,
            "exhaustive": bool(exhaustive),
            "obligations": st["obligations"],
            "discharged": st["discharged"],
            "undecided": st["undecided"] + len(LOST_ITEMS) + soft_unconfirmed,
            "soft_candidates_not_confirmed_by_replay": soft_unconfirmed,
            "refuted_before_replay": st["refuted"],
            "incomplete_shapes": st["incomplete"],
            "paths": st["paths"],
            "forks": st["forks"],
            "solver_queries": st["queries"],
            "solver_s": st["solver_s"],
            "max_path_depth": st["max_depth"],
            "functions_entered": sorted(self.functions),
            "bounds": self.bounds,
            "candidates": len(cands),
            "candidates_not_replayed": not_replayed,
            "unconfirmed_candidates": unconfirmed,
            "known_finding_hits": known_hits,
            "selftests": self.selftests,
            "checker_cmd": "bin/check %s %s" % (self.pid, self.tier),
            "trusted_base": ["z3 %s" % _z3_version(), "CPython 3.12",
                             "pymbolic/pytools/numpy as installed in /venv",
                             "vf.symx proxies and reference executors"],
        })
        if self.programs:
            cov["programs"] = self.programs
            cov["disagreements_checked"] = len(cands)
        cov.update(self.extra)
        cov["paths_timed_out"] = st.get("timeouts", 0)
        cov["paths_undecided_solver_exceeded_path_budget"] = st.get("solver_timeouts", 0)
        mine = [x for x in LOST_ITEMS]
        cov["work_items_lost_to_solver_hang"] = mine
        if mine:
            print("NOTE: %d work item(s) were stopped inside a z3 call that did not return; their obligations are undecided "
                  "(not discharged): %s" % (len(mine), mine[:3]))
        if st.get("timeouts", 0):
            self.harness_errors.append("%d path(s) of the code under test exceeded the per-path CPU budget "
                                       "(a hang of the real code or a harness that is too slow): inconclusive" % st["timeouts"])
        if self.extra.get("cvc5_disagreements"):
            self.harness_errors.append("z3 and cvc5 disagree on a sampled query: %r" % self.extra["cvc5_disagreements"][:1])
        if self.notes:
            cov["notes"] = self.notes
        if self.harness_errors:
            cov["harness_errors"] = self.harness_errors[:5]
        ev = {
            "property_id": self.pid,
            "tier": self.tier,
            "seed": self.seed,
            "level": self.level,
            "coverage": cov,
            "assumptions": self.assumptions,
            "wall_s": round(wall, 2),
            "violations": len(violations),
        }
        os.makedirs(os.path.join(VERIF, "evidence"), exist_ok=True)
        with open(os.path.join(VERIF, "evidence", self.pid + ".json"), "w") as f:
            json.dump(ev, f, indent=1, sort_keys=True, default=str)
        # verdict lines
        for k in open_known:
            if known_hits.get(k["id"]):
                print("KNOWN-FINDING: property=%s %s [%s] (%d case(s) this run)"
                      % (self.pid, k["title"], k["id"], known_hits[k["id"]]))
        for c, detail in violations[:max_report]:
            path = write_replay(self.pid, c)
            print("VIOLATION property=%s replay=%s" % (self.pid, path))
            if detail:
                print("  detail: %s" % str(detail)[:600])
        print("%s %s: obligations=%d discharged=%d undecided=%d paths=%d "
              "queries=%s solver_s=%.1f candidates=%d unconfirmed=%d "
              "violations=%d wall=%.1fs"
              % (self.pid, self.tier, st["obligations"], st["discharged"],
                 st["undecided"] + len(LOST_ITEMS) + soft_unconfirmed, st["paths"], st["queries"], st["solver_s"],
                 len(cands), unconfirmed, len(violations), wall))
        if violations:
            return EXIT_VIOLATION
        if self.harness_errors or unconfirmed:
            for h in self.harness_errors[:3]:
                print("HARNESS-ERROR: %s" % h[:3000])
            if unconfirmed:
                print("HARNESS-ERROR: %d candidate(s) did not reproduce on "
                      "replay (encoding or stub defect)" % unconfirmed)
                for n in self.notes[:3]:
                    print("  %s" % json.dumps(n, default=str)[:1500])
            return EXIT_HARNESS
        return EXIT_OK


def _z3_version():
    import z3
    return z3.get_version_string()


def tier_seed():
    tier = os.environ.get("VERIF_TIER")
    seed = int(os.environ.get("VERIF_SEED", "0"))
    return tier, seed
