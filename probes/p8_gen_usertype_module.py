import warnings; warnings.simplefilter("ignore")
import dagrt.codegen.fortran as f
from dagrt.language import *
from pymbolic import var
with CodeBuilder(name="primary") as cb:
    cb("y", "<state>y")
    with cb.if_("<t> > 3"):
        cb("y", "2*y + <func>f(<t>, y)")
        cb("<p>k", "<p>k + 1")
    with cb.else_():
        cb.fail_step()
    cb("<state>y", "y")
    cb.yield_state("<state>y", "y", var("<t>"), "final")
    cb("<t>", "<t> + <dt>")
with CodeBuilder(name="init") as cb0:
    cb0("<p>k", "0")
    cb0.switch_phase("primary")
code = DAGCode.from_phases_list([cb0.as_execution_phase("primary"), cb.as_execution_phase("primary")], "init")
from dagrt.function_registry import base_function_registry, register_ode_rhs
freg = register_ode_rhs(base_function_registry, "y", identifier="<func>f", input_names=("y",))
freg = freg.register_codegen("<func>f", "fortran", f.CallCode("""
    ${result} = -2*${y}
    """))
codegen = f.CodeGenerator("m", function_registry=freg,
    user_type_map={"y": f.ArrayType((3,), f.BuiltinType("real*8"))})
open("m.f90","w").write(codegen(code))
