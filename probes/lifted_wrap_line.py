import warnings; warnings.simplefilter("ignore")
import ast, inspect, textwrap, z3, time
import symx0
from symx0 import *
import dagrt.codegen.utils as U
import dagrt.codegen.python as P

# --- abstract strings: list of segments (kind, payload, length_term)
class AStr:
    def __init__(self, segs): self.segs = list(segs)
    @staticmethod
    def of(x):
        if isinstance(x, AStr): return x
        if isinstance(x, str): return AStr([("lit", x, z3.IntVal(len(x)))] if x else [])
        raise TypeError(type(x))
    def __add__(self, o): return AStr(self.segs + AStr.of(o).segs)
    def __radd__(self, o): return AStr(AStr.of(o).segs + self.segs)
    def slen(self):
        t = z3.IntVal(0)
        for k, p, n in self.segs: t = t + n
        return SymInt(z3.simplify(t))
def spaces(n):  # n SymInt
    t = z3.If(n.t > 0, n.t, 0)
    return AStr([("sp", None, t)])
_orig_rmul = None
def symint_rmul(self, o):
    if isinstance(o, str):
        if o == " ": return spaces(self)
        return AStr([("rep", o, z3.If(self.t > 0, self.t, 0) * len(o))])
    return SymInt(symx0._lift(o) * self.t)
SymInt.__rmul__ = symint_rmul
SymInt.__mul__ = lambda self, o: symint_rmul(self, o) if isinstance(o, str) else SymInt(self.t * symx0._lift(o))
def sym_len(x):
    if isinstance(x, AStr): return x.slen()
    return len(x)
def lift(fn):
    src = textwrap.dedent(inspect.getsource(fn))
    tree = ast.parse(src)
    class T(ast.NodeTransformer):
        def visit_Call(self, node):
            self.generic_visit(node)
            if isinstance(node.func, ast.Name) and node.func.id == "len":
                node.func = ast.Name("__sym_len", ast.Load())
            return node
    tree = ast.fix_missing_locations(T().visit(tree))
    g = dict(fn.__globals__); g["__sym_len"] = sym_len
    exec(compile(tree, inspect.getsourcefile(fn), "exec"), g)
    return g[fn.__name__]
wrap = lift(U.wrap_line_base); pad = lift(P.pad_python)

def harness(ex):
    ntok = 3
    lens = [SymInt(z3.Int("n%d" % i)) for i in range(ntok)]
    level = SymInt(z3.Int("level")); width = SymInt(z3.Int("width"))
    for l in lens: ex.solver.add(l.t >= 1, l.t <= 200)
    ex.solver.add(level.t >= 0, level.t <= 8, width.t >= 8, width.t <= 132)
    toks = [AStr([("tok", i, lens[i].t)]) for i in range(ntok)]
    lines = wrap("ignored", level=level, width=width, indentation="    ", pad_func=pad, lex_func=lambda s: list(toks))
    # token order preserved
    seq = [p for ln in lines for (k, p, n) in AStr.of(ln).segs if k == "tok"]
    ok_seq = seq == list(range(ntok))
    # each line with >1 token fits: indentation + len(line) <= width
    bad = []
    for ln in lines:
        a = AStr.of(ln)
        if sum(1 for s in a.segs if s[0] == "tok") > 1:
            total = level.t * 4 + a.slen().t
            if not ex.valid(total <= width.t):
                bad.append((ln.segs, ex.solver.model()))
    return ok_seq, len(lines), bad
ex = Explorer(); symx0.CUR = ex
t = time.time(); res = ex.explore(harness)
print("paths", ex.paths, "queries", ex.queries, "solver %.2fs total %.2fs" % (ex.t_solver, time.time() - t))
nb = 0
for trail, (ok, nl, bad) in res:
    if not ok or bad:
        nb += 1
        if nb <= 3: print("  lines", nl, "okseq", ok, "bad", [(s, m) for s, m in bad][:1])
print("bad paths", nb, "of", len(res))
