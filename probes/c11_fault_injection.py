"""Probe: C11 -- user function raises at its k-th call, k symbolic."""
import warnings; warnings.simplefilter("ignore")
import symx0, z3
from symx0 import *
from dagrt.language import *
from dagrt.exec_numpy import NumpyInterpreter
from dagrt.codegen import PythonCodeGenerator
from pymbolic import var
class Boom(Exception): pass
cb = CodeBuilder("main")
cb("a", "<func>f(<state>y, 1)")
cb("<state>z", "a + 1")
with cb.if_("a > 0"):
    cb("b", "<func>f(a, 2)")
    cb("<state>y", "b")
cb.yield_state("<state>y", "y", var("<t>"), "final")
cb("<t>", "<t> + <dt>")
dag = DAGCode.from_phases_list([cb.as_execution_phase("main")], "main")
cls = PythonCodeGenerator(class_name="M").get_class(dag)
F = z3.Function("f", z3.IntSort(), z3.IntSort(), z3.IntSort())
def harness(ex):
    k = SymInt(z3.Int("k")); ex.solver.add(k.t >= 0, k.t <= 5)
    res = []
    for name, mk in (("interp", lambda fm: NumpyInterpreter(dag, function_map=fm)), ("codegen", lambda fm: cls(function_map=fm))):
        cnt = [0]; boom = Boom("x")
        def f(a, b):
            i = cnt[0]; cnt[0] += 1
            if i == k: raise boom
            return SymInt(F(symx0._lift(a), symx0._lift(b)))
        m = mk({"<func>f": f}); m.set_up(t_start=SymInt(z3.Int("t0")), dt_start=1, context={"y": SymInt(z3.Int("y0")), "z": SymInt(z3.Int("z0"))})
        ev = []; exc = None
        try:
            for e in m.run(max_steps=2): ev.append(type(e).__name__)
        except Boom as e:
            exc = e
        if name == "interp": store = {n: v for n, v in m.context.items()}
        else: store = {n: v for n, v in vars(m).items() if n.startswith("global_") or n in ("t", "dt")}
        res.append((name, ev, exc is boom, sorted(store), m.next_phase))
    return res
ex = Explorer(); symx0.CUR = ex
for trail, r in ex.explore(harness): print(r)
print("paths", ex.paths)
