import warnings; warnings.simplefilter("ignore")
from dagrt.language import *
from dagrt.expression import parse
from dagrt.data import *
from dagrt.codegen.analysis import verify_code, CodeGenerationError
from dagrt.exec_numpy import NumpyInterpreter
cb = CodeBuilder("main")
cb("x", "<state>y ** 2")
cb("q", "i / j", loops=[("i",1,3),("j",1,3)])
cb("z", "3")
cb("c", "z > 2")
cb("w", "x + q")
dag = DAGCode.from_phases_list([cb.as_execution_phase("main")], "main")
try:
    t = infer_kinds(dag)
    print(t)
except Exception as e:
    print("infer fails", type(e).__name__, e)
# C10
def ph(name, stmts, nxt=None): return ExecutionPhase(name, nxt or name, stmts)
A = [Nop(id="a", depends_on=["b"]), ]
B = [Nop(id="b")]
dag = DAGCode.from_phases_list([ph("p1", A, "p2"), ph("p2", B)], "p1")
try:
    verify_code(dag); print("cross-phase accepted")
except Exception as e: print("cross-phase:", type(e).__name__, e)
dag = DAGCode.from_phases_list([ph("p1", [Nop(id="a", depends_on=["a"])])], "p1")
try:
    verify_code(dag); print("self-loop accepted")
except Exception as e: print("self-loop:", type(e).__name__)
dag = DAGCode.from_phases_list([ph("p1", [Nop(id="a", depends_on=["b"]), Nop(id="b", depends_on=["c"]), Nop(id="c", depends_on=["a"]), Nop(id="d")])], "p1")
try:
    verify_code(dag); print("3-cycle accepted")
except Exception as e: print("3-cycle:", type(e).__name__)
dag = DAGCode.from_phases_list([ph("p1", [Nop(id="a", depends_on=["zz"])])], "p1")
try:
    verify_code(dag); print("dangling accepted")
except Exception as e: print("dangling:", type(e).__name__)
# duplicate id
dag = DAGCode.from_phases_list([ph("p1", [Nop(id="a"), Nop(id="a")])], "p1")
try:
    verify_code(dag); print("dup-id accepted")
except Exception as e: print("dup:", type(e).__name__)
