"""Quick concrete random hunt (NOT the final technique) to learn the current state of C17/C18/C19."""
import warnings; warnings.simplefilter("ignore")
import random, itertools, traceback
from pymbolic import var
from pymbolic.primitives import *
from pymbolic.mapper.evaluator import EvaluationMapper as EM
from dagrt.expression import match, collapse_constants, parse, substitute
from dagrt.utils import get_variables
rnd = random.Random(1)
VARS = ["a", "b", "c", "x", "y"]
def gen(d, calls=True, full=False):
    r = rnd.random()
    if d == 0 or r < 0.25:
        return rnd.choice([var(rnd.choice(VARS)), rnd.choice([0, 1, 2, 3, -1, -2])]) if rnd.random() < 0.8 else var(rnd.choice(["<state>y", "<p>k", "<dt>"]))
    k = rnd.choice(["sum", "prod", "call", "kwcall", "pow", "quot"] + (["cmp", "if", "not", "and", "or", "sub", "neg"] if full else []))
    if k == "sum": return Sum(tuple(gen(d-1, calls, full) for _ in range(rnd.choice([2, 2, 3]))))
    if k == "prod": return Product(tuple(gen(d-1, calls, full) for _ in range(rnd.choice([2, 2, 3]))))
    if k == "call" and calls: return Call(var(rnd.choice(["f", "g", "<func>h"])), tuple(gen(d-1, calls, full) for _ in range(rnd.choice([1, 2]))))
    if k == "kwcall" and calls:
        from immutabledict import immutabledict
        return CallWithKwargs(var(rnd.choice(["f", "g"])), (gen(d-1, calls, full),), immutabledict({"k": gen(d-1, calls, full)}))
    if k == "pow": return Power(gen(d-1, calls, full), rnd.choice([2, 3, 2, -1]))
    if k == "quot": return Quotient(gen(d-1, calls, full), gen(d-1, calls, full))
    if k == "cmp": return Comparison(gen(d-1, calls, full), rnd.choice(["<", "<=", "==", "!=", ">", ">="]), gen(d-1, calls, full))
    if k == "if": return If(Comparison(gen(d-1, calls, full), "<", gen(d-1, calls, full)), gen(d-1, calls, full), gen(d-1, calls, full))
    if k == "not": return LogicalNot(Comparison(gen(d-1, calls, full), "<", gen(d-1, calls, full)))
    if k in ("and", "or"):
        cls = LogicalAnd if k == "and" else LogicalOr
        return cls(tuple(Comparison(gen(d-1, calls, full), ">", gen(d-1, calls, full)) for _ in range(2)))
    if k == "sub": return Subscript(var("arr"), gen(d-1, False, False))
    if k == "neg": return Product((-1, gen(d-1, calls, full)))
    return var(rnd.choice(VARS))
class Arr:
    def __getitem__(self, i): return ("arr", i).__hash__() % 7
def ev(e, seed):
    r = random.Random(seed)
    ctx = {v: r.choice([2, 3, 5, -3]) for v in VARS + ["<state>y", "<p>k", "<dt>", "h0", "h1", "h2", "h3", "h4", "h5", "h6", "h7", "h8", "h9"]}
    ctx["f"] = lambda *a, **k: hash(("f", a, tuple(sorted(k.items())))) % 101
    ctx["g"] = lambda *a, **k: hash(("g", a, tuple(sorted(k.items())))) % 103
    ctx["<func>h"] = lambda *a, **k: hash(("h", a, tuple(sorted(k.items())))) % 107
    ctx["arr"] = Arr()
    return ctx
def value(e, ctx):
    try: return ("ok", EM(ctx)(e))
    except ZeroDivisionError: return ("zde",)
    except OverflowError: return ("ovf",)
# ---- C19
bad19 = {}
for i in range(1500):
    e = gen(3, True, True)
    try:
        s = str(e); e2 = parse(s); s2 = str(e2)
    except Exception as ex:
        bad19.setdefault("EXC " + type(ex).__name__ + " " + str(ex)[:40], []).append(str(e)); continue
    if s2 != s: bad19.setdefault("reprint differs", []).append((s, s2)); continue
    for seed in range(3):
        ctx = ev(e, seed); v1 = value(e, ctx); v2 = value(e2, ctx)
        if v1[0] == "ok" and v2[0] == "ok" and isinstance(v1[1], complex) != isinstance(v2[1], complex) or (v1 != v2 and not (v1[0]=="ok" and v2[0]=="ok" and isinstance(v1[1], float) and abs(v1[1]-v2[1]) <= 1e-9*max(1,abs(v1[1])))):
            bad19.setdefault("value differs", []).append((s, str(e2), v1, v2)); break
print("C19:", {k: len(v) for k, v in bad19.items()})
for k, v in bad19.items(): print("  ", k, "e.g.", v[0] if not isinstance(v[0], tuple) else v[0][:2])
# ---- C18
bad18 = {}
for i in range(1500):
    e = gen(3, True, False)
    allv = sorted(get_variables(e))
    free = [v for v in allv if rnd.random() < 0.4]
    names = iter("h%d" % k for k in range(100)); asg = []
    try:
        new = collapse_constants(e, [var(v) for v in free], lambda v, x: asg.append((v, x)), lambda: var(next(names)))
    except Exception as ex:
        bad18.setdefault("EXC " + type(ex).__name__ + " " + str(ex)[:50], []).append((str(e), free)); continue
    for v, x in asg:
        if get_variables(x) & set(free): bad18.setdefault("hoisted mentions free", []).append((str(e), free, str(x)))
    if len({v.name for v, x in asg}) != len(asg): bad18.setdefault("assigned twice", []).append((str(e), free))
    back = substitute(new, {v.name: x for v, x in asg})
    for seed in range(3):
        ctx = ev(e, seed); v1 = value(e, ctx); v2 = value(back, ctx)
        if v1 != v2 and not (v1[0]=="ok" and v2[0]=="ok" and not isinstance(v1[1], complex) and not isinstance(v2[1], complex) and abs(v1[1]-v2[1]) <= 1e-9*max(1,abs(v1[1]))):
            bad18.setdefault("value differs", []).append((str(e), free, str(new), [(str(a), str(b)) for a, b in asg])); break
print("C18:", {k: len(v) for k, v in bad18.items()})
for k, v in bad18.items(): print("  ", k, "e.g.", v[0])
# ---- C17
bad17 = {}; nmatch = 0
for i in range(3000):
    t = gen(2, True, False); e = gen(2, True, False)
    # bias: build target by substituting into template sometimes
    tv = sorted(get_variables(t, include_function_symbols=True))
    if rnd.random() < 0.6 and tv:
        sub = {v: gen(1, False, False) for v in tv if v in VARS and rnd.random() < 0.7}
        e = substitute(t, sub)
    free = [v for v in tv if rnd.random() < 0.7]
    try:
        m = match(t, e, free_variable_names=set(free))
    except ValueError as ex:
        if "Cannot unify" in str(ex): continue
        bad17.setdefault("ValueError " + str(ex)[:40], []).append((str(t), str(e), free)); continue
    except Exception as ex:
        bad17.setdefault("EXC " + type(ex).__name__ + " " + str(ex)[:50], []).append((str(t), str(e), free)); continue
    nmatch += 1
    if not set(m) <= set(free): bad17.setdefault("binds non-free", []).append((str(t), str(e), free, m)); continue
    back = substitute(t, m)
    for seed in range(3):
        ctx = ev(e, seed); v1 = value(e, ctx); v2 = value(back, ctx)
        if v1 != v2 and not (v1[0]=="ok" and v2[0]=="ok" and not isinstance(v1[1], complex) and not isinstance(v2[1], complex) and abs(v1[1]-v2[1]) <= 1e-9*max(1,abs(v1[1]))):
            bad17.setdefault("value differs", []).append((str(t), str(e), free, {k: str(v) for k, v in m.items()})); break
print("C17: matches", nmatch, {k: len(v) for k, v in bad17.items()})
for k, v in bad17.items(): print("  ", k, "e.g.", v[0])
