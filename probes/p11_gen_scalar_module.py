import warnings; warnings.simplefilter("ignore")
import dagrt.codegen.fortran as f
from dagrt.language import *
from pymbolic import var
with CodeBuilder(name="primary") as cb:
    cb("n", "3")
    cb("a", "`<builtin>array`(n)")
    cb("a[i]", "i*<dt> if i > 1 else 2", loops=[("i", 0, "n")])
    cb("<p>s", "a[0] + a[2] + <builtin>norm_2(a) + <builtin>len(a)")
    with cb.if_("<p>s > 2 and not <p>s > 5 or <t> <= 0"):
        cb("<p>s", "<p>s - 1")
    cb("<t>", "<t> + <dt>")
code = DAGCode.from_phases_list([cb.as_execution_phase("primary")], "primary")
codegen = f.CodeGenerator("m", user_type_map={})
txt = codegen(code)
i = txt.index("subroutine dagrt_phase_func_primary"); j = txt.index("subroutine initialize")
open("m2.f90","w").write(txt)
