import sys
from fsym_exec_prototype import *
def run_module(path, init_kwargs, nruns):
    mod = Module(open(path).read()); M = Machine(mod, FloatOps())
    st = M.new_struct("dagrt_state_type")
    state_cell = Cell("type(dagrt_state_type)", ["pointer"], st)
    args, decls, body = mod.subs["initialize"]
    cells = []
    for a in args:
        if a == "dagrt_state": cells.append(state_cell); continue
        if a in init_kwargs:
            v = init_kwargs[a]
            if isinstance(v, list): c = Cell("real", ["dimension(:)"], Block("arr", 1, list(v)))
            else: c = Cell("real", [], v)
        else:
            c = Cell("real", [], None); c.present = False
        cells.append(c)
    M.call("initialize", cells)
    res = []
    for i in range(nruns):
        M.call("run", [state_cell])
        snap = {}
        for n, c in st.f.items():
            v = c.val
            if isinstance(v, Block): v = list(v.data) if v.live else "FREED"
            snap[n] = v
        res.append(snap)
    M.call("shutdown", [state_cell])
    leaks = [b.id for b in M.blocks if b.live]
    return res, M.err, leaks
if __name__ == "__main__":
    r, err, leaks = run_module("../m2.f90", {"dagrt_dt": 0.5, "dagrt_t": 0.0, "p_s": 0.0}, 3)
    for s in r: print({k: v for k, v in s.items() if not k.startswith("dagrt_refcnt")})
    print("stderr", err, "leaks", leaks)
    r, err, leaks = run_module("../m.f90", {"dagrt_dt": 1.0, "dagrt_t": 0.0, "state_y": [1.0, 1.0, 1.0]}, 6)
    for s in r: print({k: v for k, v in s.items() if not k.startswith("dagrt_refcnt")})
    print("stderr", err, "leaks", leaks)
