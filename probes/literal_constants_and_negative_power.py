import warnings; warnings.simplefilter("ignore")
import symx0, z3, numpy as np
from symx0 import *
_old = symx0._lift
def _lift2(x):
    if isinstance(x, (float, complex, np.floating)) and not isinstance(x, bool):
        return z3.Int("lit_" + repr(complex(x) if isinstance(x, complex) else float(x)))
    if isinstance(x, np.integer): return z3.IntVal(int(x))
    return _old(x)
symx0._lift = _lift2
from dagrt.language import *
from dagrt.exec_numpy import NumpyInterpreter
from dagrt.codegen import PythonCodeGenerator
from pymbolic import var
from pymbolic.primitives import Sum, Product, Power
y = var("<state>y")
cb = CodeBuilder("main")
cb("<state>y", Sum((Product((0.5, y)), 1e-05, Product((np.float64(2.0), y)), float("inf"), Power(-2, 2), Product((y, Power(-3, y))))))
cb.yield_state(y, "y", var("<t>"), "final")
dag = DAGCode.from_phases_list([cb.as_execution_phase("main")], "main")
txt = PythonCodeGenerator(class_name="M")(dag)
i = txt.index("def phase_main"); print(txt[i:i+330])
cls = PythonCodeGenerator(class_name="M").get_class(dag)
P = z3.Function("pow", z3.IntSort(), z3.IntSort(), z3.IntSort())
SymInt.__pow__ = lambda s, o: SymInt(P(s.t, symx0._lift(o)))
SymInt.__rpow__ = lambda s, o: SymInt(P(symx0._lift(o), s.t))
def harness(ex):
    y0 = SymInt(z3.Int("y0")); out = []
    for mk in (lambda: NumpyInterpreter(dag, function_map={}), lambda: cls(function_map={})):
        m = mk(); m.set_up(t_start=SymInt(z3.Int("t0")), dt_start=1, context={"y": y0})
        out.append([tuple(e) for e in m.run(max_steps=1)])
    a, b = out
    return a[0][3], b[0][3], ex.valid(a[0][3].t == b[0][3].t), (ex.solver.model() if not ex.valid(a[0][3].t == b[0][3].t) else None)
ex = Explorer(); symx0.CUR = ex
for trail, r in ex.explore(harness): print(r)
