program drv
  use m, only: dagrt_state_type, initialize, run, shutdown
  implicit none
  type(dagrt_state_type), pointer :: s
  real*8, dimension(3) :: y0
  integer i
  allocate(s)
  y0 = 1
  call initialize(dagrt_state=s, state_y=y0, dagrt_t=0d0, dagrt_dt=1d0)
  do i = 1, 4
    call run(dagrt_state=s)
    write(*,*) 'after run', i, s%dagrt_t, s%state_y, s%dagrt_next_phase
  end do
  call shutdown(dagrt_state=s)
  deallocate(s)
end program
