import warnings; warnings.simplefilter("ignore")
from dagrt.codegen.dag_ast import *
from dagrt.language import Nop
def leaf(i): return StatementWrapper(Nop(id=f"s{i}"))
def show(t):
    return [s.id for s in get_statements_in_ast(t)]
# C06 probes
t = Block(leaf(1), Block(leaf(2), leaf(3)))
print("nested block:", show(t), "->", show(simplify_ast(t)))
t = Block(leaf(0), leaf(1), Block(leaf(2), leaf(3), leaf(4)))
print("nested block:", show(t), "->", show(simplify_ast(t)))
try:
    t = Block(NullASTNode(), NullASTNode())
    print("all-null block ->", simplify_ast(t))
except Exception as e:
    print("all-null block raises", type(e).__name__, e)
try:
    t = Block(IfThenElse(False, leaf(1), NullASTNode()))
    print("if False ->", simplify_ast(t))
except Exception as e:
    print("if False block raises", type(e).__name__, e)
try:
    t = Block(IfThen(False, leaf(1)), leaf(2))
    print("ifthen False ->", show(simplify_ast(t)))
except Exception as e:
    print("if False block raises", type(e).__name__, e)
try:
    t = NullASTNode()
    print("null ->", simplify_ast(t))
except Exception as e:
    print("null raises", type(e).__name__, e)
try:
    t = Block(Block(), leaf(1))
    print("Block(Block(),s1) ->", show(simplify_ast(t)))
except Exception as e:
    print("raises", type(e).__name__, e)
