"""Throw-away probe: executor for the parsed subset, value-agnostic (floats or proxies)."""
import math, re
from fsym_parse_prototype import logical_lines, parse_stmt, tokenize
class Stop(Exception): pass
class Goto(Exception):
    def __init__(s, l): s.label = l
class MemError(Exception): pass
class Cell:           # a variable slot (by-reference)
    def __init__(self, typ, attrs, val=None): self.typ = typ; self.attrs = attrs; self.val = val; self.present = True
class Block:          # heap block
    n = 0
    def __init__(self, kind, lo=None, data=None):
        Block.n += 1; self.id = Block.n; self.kind = kind; self.live = True; self.lo = lo; self.data = data
class Struct:
    def __init__(self, fields): self.f = fields
DECL = re.compile(r"^(?P<base>integer|logical|character|real\s*(\*\s*\d+|\(\s*kind\s*=\s*\d+\s*\))?|complex\s*(\*\s*\d+|\(\s*kind\s*=\s*\d+\s*\))?|type\s*\(\s*\w+\s*\))(?P<attrs>(\s*,\s*\w+(\s*\([^)]*\))?)*)\s*(::)?\s*(?P<names>.+)$", re.I)
def parse_decl(line):
    m = DECL.match(line.strip())
    if not m: raise SyntaxError("decl " + line)
    base = m.group("base").lower().replace(" ", "")
    typ = "int" if base.startswith("integer") else "real" if base.startswith("real") else "logical" if base.startswith("logical") else "char" if base.startswith("char") else "complex" if base.startswith("complex") else base
    attrs = [a.group(0).lstrip(", ").lower().replace(" ", "") for a in re.finditer(r",\s*\w+(\s*\([^)]*\))?", m.group("attrs") or "")]
    names = [n.strip().split("*")[0].strip().lower() for n in m.group("names").split(",")]
    return typ, attrs, names
class Module:
    def __init__(self, text):
        self.params = {}; self.subs = {}; self.typefields = {}
        stmts = [parse_stmt(l) for l in logical_lines(text)]
        i = 0; cur = None; intype = None
        while i < len(stmts):
            s = stmts[i]; i += 1
            if s[0] == "typedef": intype = s[1]; self.typefields[intype] = []; continue
            if s[0] == "end" and s[1] == "type": intype = None; continue
            if intype and s[0] == "decl": self.typefields[intype].append(parse_decl(s[1])); continue
            if s[0] == "decl" and cur is None:
                continue  # module-level "integer x" before parameter
            if s[0] == "parameter": self.params[s[1]] = s[2]; continue
            if s[0] == "subroutine":
                name = s[1][1][1] if s[1][0] == "app" else s[1][1]
                args = [a[1] for a in (s[1][2] if s[1][0] == "app" else [])]
                body, i = self.block(stmts, i, ("subroutine",))
                decls = [parse_decl(b[1]) for b in body if b[0] == "decl"]
                self.subs[name] = (args, decls, [b for b in body if b[0] not in ("decl", "decl_misc")])
    def block(self, stmts, i, enders):
        out = []
        while True:
            s = stmts[i]; i += 1
            if s[0] == "end" and s[1] in enders: return out, i
            if s[0] in ("else", "elseif") and "if" in enders: return out, i - 1
            if s[0] == "if":
                arms = []; cond = s[1]
                while True:
                    body, i = self.block(stmts, i, ("if",))
                    arms.append((cond, body))
                    nxt = stmts[i - 1] if stmts[i - 1][0] == "end" else stmts[i]
                    if nxt[0] == "elseif": cond = nxt[1]; i += 1; continue
                    if nxt[0] == "else": cond = None; i += 1; continue
                    break
                out.append(("ifblock", arms))
            elif s[0] == "do":
                body, i = self.block(stmts, i, ("do",)); out.append(("doblock", s[1], s[2], s[3], body))
            else: out.append(s)
class Machine:
    def __init__(self, mod, ops, funcs=None):
        self.m = mod; self.ops = ops; self.err = []; self.out = []; self.blocks = []
    # ---- values
    def new_cell(self, typ, attrs):
        if typ.startswith("type("):
            return Cell(typ, attrs, None)
        return Cell(typ, attrs, None)
    def new_struct(self, tname):
        f = {}
        for typ, attrs, names in self.m.typefields[tname]:
            for n in names: f[n] = self.new_cell(typ, attrs)
        return Struct(f)
    # ---- lvalues: return (cell) or (block, index)
    def ref(self, e, fr):
        if e[0] == "name":
            if e[1] in fr: return fr[e[1]]
            raise KeyError(e[1])
        if e[0] == "comp":
            base = self.ref(e[1], fr); st = self.deref_struct(base)
            return st.f[e[2]]
        raise TypeError(e)
    def deref_struct(self, cell):
        v = cell.val
        if isinstance(v, Block): 
            if not v.live: raise MemError("use of freed struct")
            return v.data
        return v
    def array_of(self, cell, what="use"):
        v = cell.val
        if v is None: raise MemError("%s of unassociated/unallocated array" % what)
        if not v.live: raise MemError("%s of freed array" % what)
        return v
    def ev(self, e, fr):
        k = e[0]; o = self.ops
        if k == "num":
            s = e[1].lower()
            return o.real(float(s.replace("d", "e"))) if re.search(r"[.de]", s) else int(s)
        if k == "bool": return e[1]
        if k == "str": return e[1][1:-1]
        if k == "name":
            if e[1] in fr:
                c = fr[e[1]]
                if "dimension" in " ".join(c.attrs): return self.array_of(c)
                if "pointer" in c.attrs and c.typ in ("int", "real"):   # scalar pointer (refcount): deref
                    b = self.array_of(c, "deref"); return b.data[0]
                if c.val is None: raise MemError("read of undefined variable " + e[1])
                return c.val
            if e[1] in self.m.params: return self.ev(self.m.params[e[1]], {})
            raise KeyError(e[1])
        if k == "comp":
            c = self.ref(e, fr)
            if any(a.startswith("dimension") for a in c.attrs): return self.array_of(c)
            if "pointer" in c.attrs and c.typ in ("int", "real"):
                return self.array_of(c, "deref").data[0]
            if c.val is None: raise MemError("read of undefined component %r" % (e,))
            return c.val
        if k == "neg": return o.neg(self.ev(e[1], fr))
        if k == "pos": return self.ev(e[1], fr)
        if k == "not": return o.lnot(self.ev(e[1], fr))
        if k == "bin":
            op = e[1]
            if op == ".and.": return o.land(self.ev(e[2], fr), self.ev(e[3], fr))
            if op == ".or.": return o.lor(self.ev(e[2], fr), self.ev(e[3], fr))
            a = self.ev(e[2], fr); b = self.ev(e[3], fr)
            return self.binop(op, a, b)
        if k == "app":
            f = e[1]
            if f[0] == "name" and f[1] not in fr or f[0] == "name" and False:
                return self.intrinsic(f[1], e[2], fr)
            # array element
            arr = self.array_of(self.ref(f, fr)); idx = self.ev(e[2][0], fr)
            return self.load(arr, idx)
        raise TypeError(e)
    def binop(self, op, a, b):
        o = self.ops
        if isinstance(a, Block) or isinstance(b, Block):   # whole-array elementwise
            n = len(a.data) if isinstance(a, Block) else len(b.data)
            lo = a.lo if isinstance(a, Block) else b.lo
            get = lambda x, i: x.data[i] if isinstance(x, Block) else x
            return Block("tmp", lo, [self.binop(op, get(a, i), get(b, i)) for i in range(n)])
        return o.bin(op, a, b)
    def load(self, arr, idx):
        i = self.ops.toindex(idx) - arr.lo
        if not (0 <= i < len(arr.data)): raise MemError("index out of bounds")
        v = arr.data[i]
        if v is None: raise MemError("read of uninitialised element")
        return v
    def intrinsic(self, name, args, fr):
        o = self.ops
        if name == "present": return self.ref(args[0], fr).present
        if name in ("associated", "allocated"):
            c = self.ref(args[0], fr); return c.val is not None
        vals = [self.ev(a, fr) for a in args]
        if name == "int": return o.toint(vals[0])
        if name == "abs": return o.abs(vals[0])
        if name == "sqrt": return o.sqrt(vals[0])
        if name == "size": return len(vals[0].data)
        if name == "norm2": return o.sqrt(o.sum([o.bin("*", x, x) for x in vals[0].data]))
        if name in ("min", "max"): return o.minmax(name, vals)
        raise NotImplementedError("intrinsic " + name)
    # ---- statements
    def call(self, name, actual_cells):
        args, decls, body = self.m.subs[name]
        fr = {}
        for a, c in zip(args, actual_cells): fr[a] = c
        for typ, attrs, names in decls:
            for n in names:
                if n in fr:
                    # dummy: non-pointer array dummy bound to pointer/allocatable actual -> view of the target
                    c = fr[n]
                    if any(x.startswith("dimension") for x in attrs) and "pointer" not in attrs and "allocatable" not in attrs and c.present:
                        tgt = self.array_of(c, "argument association"); fr[n] = Cell(typ, attrs, tgt)
                    continue
                fr[n] = self.new_cell(typ, attrs)
        for a in args:
            if a not in fr: raise KeyError(a)
        try:
            self.run(body, fr)
        except Goto as g:
            if g.label != 999: raise
        # automatic deallocation of allocatable locals
        for n, c in fr.items():
            if n not in args and "allocatable" in c.attrs and c.val is not None: c.val.live = False
    def run(self, body, fr):
        for s in body: self.step(s, fr)
    def step(self, s, fr):
        k = s[0]
        if k == "assign": return self.assign(s[1], s[2], fr)
        if k == "ptrassign":
            self.ref(s[1], fr).val = self.ref(s[2], fr).val; return
        if k == "ifblock":
            for cond, body in s[1]:
                if cond is None or self.ops.truth(self.ev(cond, fr)): return self.run(body, fr)
            return
        if k == "ifstmt":
            if self.ops.truth(self.ev(s[1], fr)): self.step(s[2], fr)
            return
        if k == "doblock":
            lo = self.ops.toindex(self.ev(s[2], fr)); hi = self.ops.toindex(self.ev(s[3], fr)); c = fr[s[1]]
            i = lo
            while i <= hi:
                c.val = i; self.run(s[4], fr); i += 1
            c.val = i; return
        if k == "goto": raise Goto(s[1])
        if k in ("label", "continue"): return
        if k == "stop": raise Stop()
        if k == "write":
            if "dagrt_stderr" in s[1]: self.err.append(s[1])
            else: self.out.append(s[1])
            return
        if k == "read":
            fr["dagrt_nan"].val = self.ops.real(float("nan")); return
        if k == "call":
            ref = s[1]; name = ref[1][1]; cells = []
            for a in ref[2]:
                if a[0] == "kw": a = a[2]
                if a[0] in ("name", "comp") and (a[0] == "comp" or a[1] in fr): cells.append(self.ref(a, fr))
                else: cells.append(Cell("tmp", [], self.ev(a, fr)))
            return self.call(name, cells)
        if k == "allocate":
            a = s[1][0]
            if a[0] == "app":
                c = self.ref(a[1], fr); d = a[2][0]
                if d[0] == "slice": lo = self.ops.toindex(self.ev(d[1], fr)); hi = self.ops.toindex(self.ev(d[2], fr))
                else: lo = 1; hi = self.ops.toindex(self.ev(d, fr))
                b = Block("arr", lo, [None] * (hi - lo + 1))
            else:
                c = self.ref(a, fr); b = Block("scalar", 1, [None])
            if "allocatable" in c.attrs and c.val is not None: raise MemError("allocate of allocated")
            c.val = b; self.blocks.append(b)
            for extra in s[1][1:]:
                if extra[0] == "kw" and extra[1] == "stat": self.ref(extra[2], fr).val = 0
            return
        if k == "deallocate":
            c = self.ref(s[1][0], fr)
            if c.val is None: raise MemError("deallocate of unassociated")
            if not c.val.live: raise MemError("double free")
            c.val.live = False
            if "allocatable" in c.attrs: c.val = None
            return
        if k == "nullify":
            self.ref(s[1][0], fr).val = None; return
        raise NotImplementedError(s)
    def assign(self, lhs, rhs, fr):
        v = self.ev(rhs, fr)
        if lhs[0] == "app":
            arr = self.array_of(self.ref(lhs[1], fr), "write"); i = self.ops.toindex(self.ev(lhs[2][0], fr)) - arr.lo
            if not (0 <= i < len(arr.data)): raise MemError("index out of bounds (write)")
            arr.data[i] = self.coerce(v, self.ref(lhs[1], fr).typ); return
        c = self.ref(lhs, fr)
        if any(a.startswith("dimension") for a in c.attrs):
            arr = self.array_of(c, "write")
            if isinstance(v, Block): arr.data[:] = [self.coerce(x, c.typ) for x in v.data]
            else: arr.data[:] = [self.coerce(v, c.typ)] * len(arr.data)
            return
        if "pointer" in c.attrs and c.typ in ("int", "real"):
            self.array_of(c, "deref write").data[0] = self.coerce(v, c.typ); return
        c.val = self.coerce(v, c.typ)
    def coerce(self, v, typ):
        if typ == "real": return self.ops.real(v)
        if typ == "int": return self.ops.toint(v)
        return v
class FloatOps:
    def real(self, v): return float(v) if not isinstance(v, bool) else v
    def toint(self, v): return int(v)            # trunc toward zero
    def toindex(self, v): return int(v)
    def neg(self, v): return -v
    def lnot(self, v): return not v
    def land(self, a, b): return bool(a) and bool(b)
    def lor(self, a, b): return bool(a) or bool(b)
    def truth(self, v): return bool(v)
    def abs(self, v): return abs(v)
    def sqrt(self, v): return math.sqrt(v)
    def sum(self, xs): return sum(xs, 0.0)
    def minmax(self, n, xs): return min(xs) if n == "min" else max(xs)
    def bin(self, op, a, b):
        if op == "+": return a + b
        if op == "-": return a - b
        if op == "*": return a * b
        if op == "/":
            if isinstance(a, int) and isinstance(b, int): return int(a / b)
            return a / b
        if op == "**": return a ** b
        if op in ("==", ".eq."): return a == b
        if op in ("/=", ".ne."): return a != b
        if op in ("<", ".lt."): return a < b
        if op in ("<=", ".le."): return a <= b
        if op in (">", ".gt."): return a > b
        if op in (">=", ".ge."): return a >= b
        raise NotImplementedError(op)
