"""Throw-away probe: can the Fortran subset emitted by dagrt be read by a small parser?"""
import re, sys
TOK = re.compile(r"""
   (?P<ws>\s+)
 | (?P<num>(\d+\.\d*|\.\d+|\d+)([deDE][+-]?\d+)?)
 | (?P<dotop>\.(and|or|not|eq|ne|lt|le|gt|ge|true|false)\.)
 | (?P<name>[A-Za-z_][A-Za-z0-9_]*)
 | (?P<str>'([^']|'')*'|"([^"]|"")*")
 | (?P<op>\*\*|=>|==|/=|<=|>=|//|::|\(/|/\)|[-+*/<>=(),%:])
""", re.X | re.I)
def logical_lines(text):
    out = []; cur = ""
    for raw in text.split("\n"):
        ln = strip_comment(raw).rstrip()
        if not ln.strip(): continue
        s = ln.strip()
        if s.startswith("&"): s = s[1:].lstrip()
        if s.endswith("&"):
            cur += s[:-1].rstrip() + " "; continue
        cur += s; out.append(cur); cur = ""
    assert not cur
    return out
def strip_comment(ln):
    q = None
    for i, c in enumerate(ln):
        if q:
            if c == q: q = None
        elif c in "'\"": q = c
        elif c == "!": return ln[:i]
    return ln
def tokenize(s):
    pos = 0; toks = []
    while pos < len(s):
        m = TOK.match(s, pos)
        if not m: raise SyntaxError("cannot tokenize %r at %r" % (s, s[pos:pos+20]))
        pos = m.end()
        k = m.lastgroup
        if k == "ws": continue
        v = m.group(k)
        toks.append((k, v.lower() if k in ("name", "dotop") else v))
    return toks
# --- expression parser (precedence climbing)
BIN = {".or.": 1, ".and.": 2, "==": 4, "/=": 4, "<": 4, "<=": 4, ">": 4, ">=": 4, ".eq.": 4, ".ne.": 4, ".lt.": 4, ".le.": 4, ".gt.": 4, ".ge.": 4, "//": 5, "+": 6, "-": 6, "*": 7, "/": 7, "**": 9}
class P:
    def __init__(self, toks): self.t = toks; self.i = 0
    def peek(self): return self.t[self.i] if self.i < len(self.t) else (None, None)
    def next(self): x = self.peek(); self.i += 1; return x
    def expect(self, v):
        k, x = self.next()
        if x != v: raise SyntaxError("expected %r got %r in %r" % (v, x, self.t))
    def expr(self, minp=0):
        k, v = self.peek()
        if v == ".not.":
            self.next(); lhs = ("not", self.expr(3))
        elif v in ("-", "+"):
            self.next(); lhs = ("neg" if v == "-" else "pos", self.expr(7))   # unary minus binds below **, at level of */ per Fortran
        else:
            lhs = self.primary()
        while True:
            k, v = self.peek()
            if v in BIN and BIN[v] >= minp:
                p = BIN[v]; self.next()
                rhs = self.expr(p if v == "**" else p + 1)   # ** right assoc
                lhs = ("bin", v, lhs, rhs)
            else: return lhs
    def primary(self):
        k, v = self.next()
        if k == "num": return ("num", v)
        if k == "str": return ("str", v)
        if v in (".true.", ".false."): return ("bool", v == ".true.")
        if v == "(":
            e = self.expr(); self.expect(")"); return e
        if k == "name":
            ref = ("name", v)
            while True:
                k2, v2 = self.peek()
                if v2 == "(":
                    self.next(); args = []
                    if self.peek()[1] != ")":
                        while True:
                            args.append(self.arg())
                            if self.peek()[1] == ",": self.next(); continue
                            break
                    self.expect(")")
                    ref = ("app", ref, args)
                elif v2 == "%":
                    self.next(); k3, v3 = self.next(); assert k3 == "name"; ref = ("comp", ref, v3)
                else: return ref
        raise SyntaxError("bad primary %r in %r" % (v, self.t))
    def arg(self):
        # keyword arg name=expr, or slice lo:hi, or expr
        if self.peek()[0] == "name" and self.i + 1 < len(self.t) and self.t[self.i+1][1] == "=":
            n = self.next()[1]; self.next(); return ("kw", n, self.expr())
        if self.peek()[1] == ":":
            self.next(); return ("slice", None, None)
        e = self.expr()
        if self.peek()[1] == ":":
            self.next(); hi = self.expr(); return ("slice", e, hi)
        return e
def parse_stmt(line):
    toks = tokenize(line)
    vals = [v for k, v in toks]
    k0, v0 = toks[0]
    def rest_expr(ts):
        p = P(ts); e = p.expr(); 
        if p.i != len(ts): raise SyntaxError("trailing tokens in %r" % line)
        return e
    if k0 == "num" and v0 == "999": return ("label", 999)
    if v0 in ("module", "contains", "implicit", "use"): return ("decl_misc", vals)
    if v0 == "end": return ("end", vals[1] if len(vals) > 1 else None)
    if v0 == "endif": return ("end", "if")
    if v0 == "else":
        if len(vals) > 1 and vals[1] == "if":
            assert vals[-1] == "then"; return ("elseif", rest_expr(toks[2:-1]))
        return ("else",)
    if v0 == "if":
        # if (cond) then   |  if (cond) stmt
        depth = 0
        for j, (k, v) in enumerate(toks[1:], 1):
            if v == "(": depth += 1
            elif v == ")":
                depth -= 1
                if depth == 0: break
        cond = rest_expr(toks[2:j])
        tail = toks[j+1:]
        if [v for k, v in tail] == ["then"]: return ("if", cond)
        return ("ifstmt", cond, parse_stmt_toks(tail, line))
    return parse_stmt_toks(toks, line)
TYPEWORDS = ("integer", "real", "logical", "complex", "character", "type")
def parse_stmt_toks(toks, line):
    vals = [v for k, v in toks]
    v0 = vals[0]
    def rest_expr(ts):
        p = P(ts); e = p.expr()
        if p.i != len(ts): raise SyntaxError("trailing tokens in %r" % line)
        return e
    if v0 == "subroutine":
        p = P(toks[1:]); ref = p.primary(); return ("subroutine", ref)
    if v0 == "parameter":
        p = P(toks[2:-1]); n = p.next()[1]; p.expect("="); return ("parameter", n, p.expr())
    if v0 == "type" and vals[1] != "(":
        return ("typedef", vals[1])
    if v0 in TYPEWORDS:
        return ("decl", line)
    if v0 == "do":
        p = P(toks[1:]); v = p.next()[1]; p.expect("="); lo = p.expr(); p.expect(","); hi = p.expr(); return ("do", v, lo, hi)
    if v0 == "goto": return ("goto", int(vals[1]))
    if v0 == "go" and vals[1] == "to": return ("goto", int(vals[2]))
    if v0 == "stop": return ("stop",)
    if v0 == "call":
        p = P(toks[1:]); ref = p.primary(); return ("call", ref)
    if v0 in ("write", "read"): return (v0, line)
    if v0 in ("allocate", "deallocate", "nullify"):
        p = P(toks); ref = p.primary(); return (v0, ref[2])
    if v0 == "continue": return ("continue",)
    # assignment / pointer assignment
    p = P(toks); lhs = p.primary(); k, op = p.next()
    if op not in ("=", "=>"): raise SyntaxError("unknown statement %r" % line)
    rhs = p.expr()
    if p.i != len(toks): raise SyntaxError("trailing tokens in %r" % line)
    return ("assign" if op == "=" else "ptrassign", lhs, rhs)
if __name__ == "__main__":
    from collections import Counter
    for fn in sys.argv[1:]:
        c = Counter(); bad = 0
        for ln in logical_lines(open(fn).read()):
            try:
                st = parse_stmt(ln); c[st[0]] += 1
            except Exception as e:
                bad += 1; print("FAIL", fn, repr(ln), e)
        print(fn, "ok", sum(c.values()), "bad", bad, dict(c))
