import warnings; warnings.simplefilter("ignore")
from dagrt.language import *
from dagrt.expression import parse
from dagrt.exec_numpy import NumpyInterpreter
from dagrt.codegen import PythonCodeGenerator
import traceback
def run_both(dag, ctx, steps=2, fm={}):
    out=[]
    for name in ("interp","codegen"):
        try:
            if name=="interp":
                m = NumpyInterpreter(dag, function_map=fm)
            else:
                m = PythonCodeGenerator(class_name="M").get_class(dag)(function_map=fm)
            m.set_up(t_start=0, dt_start=1, context=dict(ctx))
            ev = [tuple(e) for e in m.run(max_steps=steps)]
            out.append((name, ev))
        except Exception as e:
            out.append((name, "EXC %s: %s" % (type(e).__name__, e)))
    for o in out: print("  ", o)
# zero-trip loop
cb = CodeBuilder("main")
cb("<state>a", "`<builtin>array`(3)")
cb("<state>a[i]", "1", loops=[("i", 0, 0)])
cb.yield_state("<state>y", "y", 0, "final")
dag = DAGCode.from_phases_list([cb.as_execution_phase("main")], "main")
print("zero-trip"); run_both(dag, {"y": 1.0})
# loop bound in var
cb = CodeBuilder("main")
cb("n", "3")
cb("<state>a", "`<builtin>array`(3)")
cb("<state>a[i]", "i", loops=[("i", 0, "n")])
cb.yield_state("<state>a[2]", "y", 0, "final")
dag = DAGCode.from_phases_list([cb.as_execution_phase("main")], "main")
print("bound in var"); run_both(dag, {"y": 1.0})
# nested else then fail
cb = CodeBuilder("main")
with cb.if_("<state>y > 0"):
    with cb.if_("<state>y > 5"):
        cb("<state>y", "<state>y - 5")
    with cb.else_():
        cb("<state>y", "<state>y + 100")
        cb.fail_step()
with cb.else_():
    cb("<state>y", "0 - <state>y")
cb.yield_state("<state>y", "y", "<t>", "final")
cb("<t>", "<t> + <dt>")
dag = DAGCode.from_phases_list([cb.as_execution_phase("main")], "main")
print("nested else"); run_both(dag, {"y": 7.0}, steps=3)
print(dag)
print(PythonCodeGenerator(class_name="M")(dag).split("def phase_main")[1].split("def __init__")[0])
