"""Probe: C02 stage 1 -- every pair of statements not ordered by the recorded edges must commute on an arbitrary store."""
import warnings; warnings.simplefilter("ignore")
import symx0, z3, time, itertools
from symx0 import *
from dagrt.language import *
from dagrt.exec_numpy import NumpyInterpreter, FailStepException, TransitionEvent
from pymbolic import var
def closure(stmts):
    anc = {s.id: set(s.depends_on) for s in stmts}
    ch = True
    while ch:
        ch = False
        for k in anc:
            new = set().union(*[anc[d] for d in anc[k]]) - anc[k] if anc[k] else set()
            if new: anc[k] |= new; ch = True
    return anc
F = z3.Function("f", z3.IntSort(), z3.IntSort(), z3.IntSort())
def f(a, b): return SymInt(F(symx0._lift(a), symx0._lift(b)))
class SymList(list):
    def _ix(self, i):
        if isinstance(i, tuple): (i,) = i
        return i
    def __getitem__(self, i):
        i = self._ix(i)
        if isinstance(i, SymInt):
            r = list.__getitem__(self, len(self) - 1)
            for k in range(len(self) - 2, -1, -1): r = SymInt(z3.If(i.t == k, symx0._lift(list.__getitem__(self, k)), symx0._lift(r)))
            return r
        return list.__getitem__(self, i)
    def __setitem__(self, i, v):
        i = self._ix(i)
        if isinstance(i, SymInt):
            for k in range(len(self)): list.__setitem__(self, k, SymInt(z3.If(i.t == k, symx0._lift(v), symx0._lift(list.__getitem__(self, k)))))
        else: list.__setitem__(self, i, v)
def run_order(dag, order, names, tag):
    interp = NumpyInterpreter(dag, function_map={"<func>f": f})
    for n in names:
        if n.endswith("arr"): interp.context[n] = SymList([SymInt(z3.Int("%s_%d" % (n, k))) for k in range(3)])
        else:
            interp.context[n] = SymInt(z3.Int("v_" + n))
            if n in ("n", "j"): symx0.CUR.solver.add(z3.Int("v_" + n) >= 0, z3.Int("v_" + n) <= 2)
    log = []
    for s in order:
        try:
            if not interp.evaluate_condition(s): continue
            r = getattr(interp, s.exec_method)(s)
            if r is not None and r[0] is not None: log.append(("yield", r[0].component_id, r[0].t, r[0].state_component))
        except FailStepException: log.append(("fail",)); break
        except TransitionEvent as e: log.append(("switch", e.next_phase)); break
    return dict(interp.context), log
def differs(ex, a, b):
    (ca, la), (cb, lb) = a, b
    if set(ca) != set(cb) or len(la) != len(lb): return True
    def neq(x, y):
        if isinstance(x, list): return any(neq(p, q) for p, q in zip(x, y))
        if isinstance(x, (SymInt, int)) and isinstance(y, (SymInt, int)) and (isinstance(x, SymInt) or isinstance(y, SymInt)):
            return not ex.valid(symx0._lift(x) == symx0._lift(y))
        if isinstance(x, SymBool) or isinstance(y, SymBool):
            lx = x.t if isinstance(x, SymBool) else z3.BoolVal(bool(x)); ly = y.t if isinstance(y, SymBool) else z3.BoolVal(bool(y))
            return not ex.valid(lx == ly)
        return x != y
    if any(neq(ca[k], cb[k]) for k in ca): return True
    return any(any(neq(p, q) for p, q in zip(ea, eb)) for ea, eb in zip(la, lb))
def check(cb_):
    dag = DAGCode.from_phases_list([cb_.as_execution_phase("main")], "main")
    stmts = cb_.statements; anc = closure(stmts)
    names = sorted(set().union(*[s.get_read_variables() | s.get_written_variables() for s in stmts]) | {"j", "n", "<state>arr", "i"} - {"<func>f"})
    bad = []
    for a, b in itertools.combinations(stmts, 2):
        if a.id in anc[b.id] or b.id in anc[a.id]: continue
        def h(ex):
            return differs(ex, run_order(dag, [a, b], names, "ab"), run_order(dag, [b, a], names, "ba"))
        ex = Explorer(); symx0.CUR = ex
        res = ex.explore(h)
        if any(r for _, r in res): bad.append((a.id, b.id, str(a), str(b)))
    return bad
cb = CodeBuilder("main")
cb("a", "<state>y + 1")
cb("b", "<func>f(a, <dt>)")
with cb.if_("a > 0"):
    cb("c", "b * 2")
    cb("<state>y", "c")
with cb.else_():
    cb("<state>z", "a")
cb.yield_state("<state>y", "y", var("<t>"), "final")
cb("<t>", "<t> + <dt>")
t = time.time(); print("well-ordered program: non-commuting unordered pairs =", check(cb), "%.2fs" % (time.time() - t))
cb = CodeBuilder("main")
cb("j", "1")
cb("<state>arr[j]", "7")
cb("j", "2")
cb("n", "3")
cb("<state>arr[i]", "i", loops=[("i", 0, "n")])
cb("n", "1")
t = time.time(); 
for x in check(cb): print("  NONCOMMUTING", x)
print("%.2fs" % (time.time() - t))
