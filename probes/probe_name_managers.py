import warnings; warnings.simplefilter("ignore")
from dagrt.codegen.python import PythonNameManager
from dagrt.codegen.fortran import FortranNameManager
from dagrt.codegen.utils import *
pm = PythonNameManager()
for n in ["y^","y*","y_","y__0", "y", "Y", "<state>y", "<state>Y", "<p>y", "<t>", "<dt>", "t", "<state>t", "", "_", "1x", "<cond>", "global_state_y", "class", "<ret_state>y"]:
    print(repr(n), "->", pm[n])
print([pm.name_function(f) for f in ["<func>f","<func>F","f","func_f","<builtin>len"]])
fm = FortranNameManager()
for n in ["y^","y*","y", "Y", "<state>y", "<state>Y", "<p>y", "<t>", "<dt>", "t", "dagrt_t", "lploc_y", "<state>t", "", "_", "1x", "<cond>", "a"*70, "dagrt_refcnt_y", "<p>dagrt_t"]:
    print(repr(n), "->", fm[n])
print([fm.name_function(f) for f in ["<func>f","<func>F","y", "lploc_y"]])
print(fm.make_unique_fortran_name("y"), fm.name_refcount("y"), fm.name_refcount("<state>y"))
