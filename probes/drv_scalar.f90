program drv2
  use m, only: dagrt_state_type, initialize, run, shutdown
  implicit none
  type(dagrt_state_type), pointer :: s
  integer i
  allocate(s)
  call initialize(dagrt_state=s, dagrt_t=0d0, dagrt_dt=0.5d0, p_s=0d0)
  do i = 1, 3
    call run(dagrt_state=s)
    write(*,*) s%dagrt_next_phase, s%dagrt_dt, s%p_s, s%dagrt_t
  end do
  call shutdown(dagrt_state=s)
  deallocate(s)
end program
