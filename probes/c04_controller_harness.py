"""Probe: C04 harness -- real ExecutionController, edges as solver-pruned choice bits (acyclic by rank witness),
guards symbolic, iteration order of depends_on via symbolic ranks."""
import warnings; warnings.simplefilter("ignore")
import symx0, z3, time, builtins
from symx0 import *
from dagrt.language import Nop, ExecutionPhase, ExecutionController
_fs = builtins.frozenset
class RankedFS(_fs):
    def __iter__(self):
        items = list(_fs.__iter__(self))
        # insertion sort by symbolic rank -> forks only on needed comparisons
        out = []
        for x in items:
            k = 0
            while k < len(out) and bool(SymBool(RANK[out[k]] < RANK[x])): k += 1
            out.insert(k, x)
        return iter(out)
N = 4
IDS = ["s%d" % i for i in range(N)]
RANK = {}
class Target:
    def __init__(self, ex): self.log = []; self.ex = ex; self.skipped = set()
    def evaluate_condition(self, s):
        r = bool(SymBool(z3.Bool("g_" + s.id)))
        if not r: self.skipped.add(s.id)
        return r
    def exec_Nop(self, s): self.log.append(s.id)
def harness(ex):
    for i in IDS: RANK[i] = z3.Int("rk_" + i)
    ex.solver.add(z3.Distinct(*RANK.values()))
    # edge bits with acyclicity witness: e[i][j] -> topo[i] > topo[j]
    topo = [z3.Int("topo_%d" % i) for i in range(N)]
    E = {}
    for i in range(N):
        for j in range(N):
            if i != j:
                E[i, j] = z3.Bool("e_%d_%d" % (i, j)); ex.solver.add(z3.Implies(E[i, j], topo[i] > topo[j]))
    deps = {i: [IDS[j] for j in range(N) if j != i and bool(SymBool(E[i, j]))] for i in range(N)}
    stmts = []
    for i in range(N):
        s = Nop(id=IDS[i]); s.depends_on = RankedFS(deps[i]); stmts.append(s)
    ph = ExecutionPhase("p", "p", stmts)
    ec = ExecutionController(None); t = Target(ex)
    ec.reset(); ec.update_plan(ph, RankedFS(ph.depends_on))
    list(ec(ph, t))
    visited = t.log + list(t.skipped)
    ok = True
    # executed-or-skipped exactly once, deps first (order of visiting = plan order; reconstruct from executed_ids not ordered -> use log+skipped positions)
    if sorted(visited) != sorted(IDS): ok = False
    return ok, tuple(sorted((k, tuple(v)) for k, v in deps.items()))
ex = Explorer(); symx0.CUR = ex
t = time.time(); res = ex.explore(harness, max_paths=2000000)
graphs = {g for _, (ok, g) in res}
print("paths", ex.paths, "distinct DAGs", len(graphs), "bad", sum(1 for _, (ok, g) in res if not ok), "queries", ex.queries, "solver %.1fs total %.1fs" % (ex.t_solver, time.time() - t))
