from dagrt.codegen.utils import make_identifier_from_name, KeyToUniqueNameMap
from dagrt.codegen.fortran import FortranNameManager
from dagrt.codegen.python import PythonNameManager

def ident_legal(name: str) -> str:
    """
    pre: len(name) <= 4
    post: all((c == "_" or ("a" <= c <= "z") or ("A" <= c <= "Z") or ("0" <= c <= "9")) for c in _) and len(_) > 0 and _[0] != "_"
    """
    return make_identifier_from_name(name)

def fortran_distinct(a: str, b: str) -> bool:
    """
    pre: len(a) <= 3 and len(b) <= 3 and a != b
    pre: not a.startswith("dagrt_") and not b.startswith("dagrt_")
    post: _
    """
    nm = FortranNameManager()
    x = nm[a]
    y = nm[b]
    return x.lower() != y.lower()

def python_distinct(a: str, b: str) -> bool:
    """
    pre: len(a) <= 3 and len(b) <= 3 and a != b
    post: _
    """
    nm = PythonNameManager()
    x = nm[a]
    y = nm[b]
    return x != y
