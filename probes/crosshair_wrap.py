from typing import List
from dagrt.codegen.utils import wrap_line_base

def wrap_tokens(lens: List[int], level: int, width: int) -> bool:
    """
    pre: 1 <= len(lens) <= 4 and all(1 <= n <= 12 for n in lens)
    pre: 0 <= level <= 3 and 8 <= width <= 30
    post: _
    """
    tokens = ["x" * n for n in lens]
    lines = wrap_line_base("ignored", level=level, width=width, indentation="    ",
            pad_func=lambda s, w: s + "&", lex_func=lambda line: list(tokens))
    # re-tokenise
    out = []
    for i, ln in enumerate(lines):
        if i < len(lines) - 1:
            assert ln.endswith("&")
            ln = ln[:-1]
        out.extend(ln.split())
    if out != tokens:
        return False
    # every produced line holding more than one token fits the width
    for i, ln in enumerate(lines):
        body = ln[:-1] if i < len(lines) - 1 else ln
        if len(body.split()) > 1 and len("    " * level) + len(ln) > width:
            return False
    return True
