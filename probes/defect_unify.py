import warnings; warnings.simplefilter("ignore")
from dagrt.language import *
from dagrt.expression import parse
from dagrt.data import *
from dagrt.codegen.analysis import verify_code, CodeGenerationError
import itertools
# C14 unify
U = [None, Boolean(), Integer(), Scalar(True), Scalar(False), Array(True), Array(False), UserType("a"), UserType("b")]
def u(a,b):
    try: return ("ok", unify(a,b))
    except Exception as e: return ("exc", type(e).__name__)
bad=[]
for a,b in itertools.product(U,U):
    r1,r2=u(a,b),u(b,a)
    if r1[0]!=r2[0] or (r1[0]=="ok" and r1[1]!=r2[1]): bad.append((a,b,r1,r2))
print("non-commutative pairs:", len(bad))
for x in bad[:20]: print("  ", x)
bad=[]
for a in U:
    r=u(a,a)
    if r!=("ok",a) : bad.append((a,r))
print("non-idempotent:", bad)
bad=[]
for a,b,c in itertools.product(U,U,U):
    def uu(x,y):
        if x[0]=="exc": return x
        return u(x[1],y)
    l = uu(u(a,b),c)
    rr = u(b,c)
    r = ("exc",rr[1]) if rr[0]=="exc" else u(a, rr[1])
    if l[0]!=r[0] or (l[0]=="ok" and l[1]!=r[1]): bad.append((a,b,c,l,r))
print("non-assoc triples:", len(bad))
for x in bad[:12]: print("  ", x)
# C09 power / quotient
cb = CodeBuilder("main")
cb("x", "<state>y ** 2")
cb("q", "i / j", loops=[("i",1,3),("j",1,3)])
cb("z", "3")
cb("m", "min(z, 2)")
cb("c", "z > 2")
dag = DAGCode.from_phases_list([cb.as_execution_phase("main")], "main")
try:
    t = infer_kinds(dag)
    print(t)
except Exception as e:
    print("infer fails", type(e).__name__, e)
