import warnings; warnings.simplefilter("ignore")
from dagrt.language import *
from dagrt.expression import parse
from dagrt.codegen.dag_ast import *
from dagrt.codegen.transform import *
import traceback
def mk(stmts):
    dag = DAGCode.from_phases_list([ExecutionPhase("main","main",stmts)], "main")
    return create_ast_from_phase(dag, "main")
# C07: nested if-expr
cb = CodeBuilder("main")
cb("y", "(1 if a > 0 else (2 if b > 0 else 3)) if c > 0 else 4")
ast = mk(cb.statements)
print(ast)
print("--- expand")
print(expand_IfThenElse(ast))
# nested call, isolate calls alone
cb = CodeBuilder("main")
cb("y", "f(g(x)) + 1")
ast = mk(cb.statements)
try:
    print(isolate_function_calls(ast))
except Exception as e:
    print("isolate_function_calls alone:", type(e).__name__, e)
print(isolate_function_calls(isolate_function_arguments(ast)))
# self-dep
cb = CodeBuilder("main")
cb("y", "y + temp_y + tmp")
with cb.if_("y > 0"):
    cb("y", "f(y + 1, y) * 2")
ast = mk(cb.statements)
a2 = eliminate_self_dependencies(ast); print(a2)
a3 = isolate_function_arguments(a2); print(a3)
a4 = isolate_function_calls(a3); print(a4)
