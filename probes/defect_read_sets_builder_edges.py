import warnings; warnings.simplefilter("ignore")
from dagrt.language import *
from dagrt.expression import parse
from pymbolic import var
# C08
s = Assign(assignee="y", assignee_subscript=(parse("j+k"),), expression=parse("x+1"), loops=[("i", parse("a"), parse("n"))], condition=parse("c"))
print("Assign reads", sorted(s.get_read_variables()), "writes", sorted(s.get_written_variables()))
s = Assign(assignee="y", assignee_subscript=(), expression=parse("x[idx] + f(z, w=u)"))
print("Assign reads", sorted(s.get_read_variables()))
s = YieldState(expression=parse("x[i]"), time=parse("<t>+h"), time_id="a", component_id="b", condition=parse("c"))
print("Yield reads", sorted(s.get_read_variables()))
s = AssignFunctionCall(assignees=("a",), function_id="<func>f", parameters=(parse("x[i]"), parse("g(q)")), kw_parameters={"k": parse("r")}, condition=parse("c"))
print("AFC reads", sorted(s.get_read_variables()))
# C02: builder with loop bound var
cb = CodeBuilder("p")
cb("n", "3")
cb("j", "1")
cb("a", "`<builtin>array`(5)")
cb("a[j]", "7")
cb("j", "2")
cb("b[i]", "1", loops=[("i", 0, "n")])
cb("n", "4")
for st in cb.statements: print(st.id, st, sorted(st.depends_on))
