import warnings; warnings.simplefilter("ignore")
from dagrt.language import *
from dagrt.transform import fuse_two_dags
from dagrt.expression import *
from pymbolic import var
cb = CodeBuilder("main")
cb("tmp", "<state>y + <dt>")
cb("<state>y", "tmp * 2")
cb("<t>", "<t> + <dt>")
d1 = DAGCode.from_phases_list([cb.as_execution_phase("main")], "main")
cb = CodeBuilder("main")
cb("tmp", "<state>z + <t>")
cb("<state>z", "tmp * 3")
d2 = DAGCode.from_phases_list([cb.as_execution_phase("main")], "main")
try:
    print(fuse_two_dags(d1, d2))
except Exception as e:
    import traceback; traceback.print_exc()
# C17
for t, e, kw in [("a*b + c", "x*y + z", {}), ("f(a, b=c)", "f(1, b=2)", {}), ("a+b", "x", {}), ("a*b", "x", {}), ("f(a*b)", "f(x)", {}), ("a + a", "x + y", {}), ("a*x + b", "2*x + 3", dict(free_variable_names=["a","b"])), ("g(a)", "h(1)", {}), ("a+b+c", "x+y", {})]:
    try:
        print(t, "~", e, "->", match(t, e, **kw))
    except Exception as ex:
        print(t, "~", e, "-> EXC", type(ex).__name__, ex)
# C18
names = iter("h%d" % i for i in range(100))
def run_cc(s, free):
    asg = []
    new = collapse_constants(parse(s), [var(v) for v in free], lambda v, e: asg.append((v, e)), lambda: var(next(names)))
    print(s, free, "->", new, [(str(a), str(b)) for a,b in asg])
run_cc("(a + b)*x + f(a)*y + a*b*x*y", ["x", "y"])
run_cc("(a + x)**2 + a**b", ["x"])
run_cc("f(a + b, x) + g(a*2)", ["x"])
run_cc("a + b", ["x"])
run_cc("a + b + x*(c+d)", ["x"])
run_cc("x + 1 + 2", ["x"])
# C19
for s in ["<state>y + <func>f(a, b=2)", "a if b > c else d", "not a and b or c", "a[i+1]", "-a**2", "a - (b - c)", "a/(b*c)", "`<builtin>len`(x)", "a <= b", "(a if b else c) + 1", "f(x)(y)", "a**(-1)", "-(a+b)", "a*-b", "2**-1", "a**b**c", "(a**b)**c", "(-a)**2", "1e-5*x", "a and (b or c)", "not (a and b)", "a == b", "a != b", "f()"]:
    try:
        e = parse(s); s2 = str(e); e2 = parse(s2)
        print(repr(s), "->", repr(s2), "same" if e == e2 else "DIFF %r" % (e2,), "" if str(e2)==s2 else "PRINTDIFF")
    except Exception as ex:
        print(repr(s), "EXC", type(ex).__name__, ex)
