import z3, time
class Abort(BaseException): pass
class Explorer:
    def __init__(self):
        self.solver = z3.Solver(); self.queries = 0; self.t_solver = 0.0
        self.paths = 0
    def check(self, *extra):
        self.queries += 1; t=time.time()
        r = self.solver.check(*extra); self.t_solver += time.time()-t
        return r
    def explore(self, fn, max_paths=10000):
        # worklist of decision prefixes
        work = [[]]
        results = []
        while work:
            prefix = work.pop()
            self.prefix = prefix; self.pos = 0; self.trail = []
            self.solver.push()
            self.new_alts = []
            try:
                res = fn(self)
                results.append((list(self.trail), res))
            except Abort:
                pass
            finally:
                self.solver.pop()
            work.extend(self.new_alts)
            self.paths += 1
            if self.paths > max_paths: raise RuntimeError("too many paths")
        return results
    def branch(self, cond):
        """cond: z3 Bool. returns concrete bool, forks."""
        cond = z3.simplify(cond)
        if z3.is_true(cond): return True
        if z3.is_false(cond): return False
        if self.pos < len(self.prefix):
            d = self.prefix[self.pos]; self.pos += 1
            self.solver.add(cond if d else z3.Not(cond)); self.trail.append(d)
            return d
        can_t = self.check(cond) == z3.sat
        can_f = self.check(z3.Not(cond)) == z3.sat
        if can_t and can_f:
            self.new_alts.append(self.trail + [False])
            d = True
        elif can_t: d = True
        elif can_f: d = False
        else: raise Abort()
        self.pos += 1  # keep prefix aligned
        self.prefix = self.trail + [d]
        self.solver.add(cond if d else z3.Not(cond)); self.trail.append(d)
        return d
    def valid(self, cond):
        return self.check(z3.Not(cond)) == z3.unsat

CUR = None
def _lift(x):
    if isinstance(x, SymInt): return x.t
    if isinstance(x, bool): return z3.IntVal(int(x))
    if isinstance(x, int): return z3.IntVal(x)
    raise TypeError(type(x))
class SymBool:
    def __init__(self, t): self.t = t
    def __bool__(self): return CUR.branch(self.t)
    def __repr__(self): return "SymBool(%s)" % self.t
class SymInt:
    def __init__(self, t): self.t = t
    def __add__(self, o): return SymInt(self.t + _lift(o))
    def __radd__(self, o): return SymInt(_lift(o) + self.t)
    def __sub__(self, o): return SymInt(self.t - _lift(o))
    def __rsub__(self, o): return SymInt(_lift(o) - self.t)
    def __mul__(self, o): return SymInt(self.t * _lift(o))
    def __rmul__(self, o): return SymInt(_lift(o) * self.t)
    def __neg__(self): return SymInt(-self.t)
    def __lt__(self, o): return SymBool(self.t < _lift(o))
    def __le__(self, o): return SymBool(self.t <= _lift(o))
    def __gt__(self, o): return SymBool(self.t > _lift(o))
    def __ge__(self, o): return SymBool(self.t >= _lift(o))
    def __eq__(self, o): return SymBool(self.t == _lift(o))
    def __ne__(self, o): return SymBool(self.t != _lift(o))
    __hash__ = None
    def __repr__(self): return "SymInt(%s)" % z3.simplify(self.t)

def _realize(self):
    ex = CUR
    t = z3.simplify(self.t)
    if z3.is_int_value(t): return t.as_long()
    while True:
        if ex.check() != z3.sat: raise Abort()
        v = ex.solver.model().eval(self.t, model_completion=True).as_long()
        if ex.branch(self.t == v): return v
SymInt.__index__ = _realize
