import warnings; warnings.simplefilter("ignore")
from dagrt.language import *
class T:
    def __init__(self, req): self.log=[]; self.req=req
    def evaluate_condition(self, s): return True
    def exec_Nop(self, s):
        self.log.append(s.id)
        return None, self.req.get(s.id)
stmts = [Nop(id="a"), Nop(id="q", depends_on=["a"]), Nop(id="d", depends_on=["a"]), Nop(id="x", depends_on=["d"]), Nop(id="s", depends_on=["q","x"])]
ph = ExecutionPhase("p","p",stmts)
for req in ({}, {"a": ["x"]}):
    ec = ExecutionController(None); t = T(req)
    ec.reset(); ec.update_plan(ph, ph.depends_on)
    print("plan", ec.plan)
    list(ec(ph, t)); print("req", req, "order", t.log)
