import warnings; warnings.simplefilter("ignore")
import shlex, ast
from dagrt.codegen.python import wrap_line as wpy
from dagrt.codegen.fortran import wrap_line as wf
for s in ["x='a b'", "raise self.StepError('Cond', 'a fairly long message with several words in it that goes past the eighty column limit for sure')",
          "yield self.StateComputed(t=self.t, time_id='final', component_id='my comp', state_component=self.global_state_y + self.global_state_z + self.global_state_w)",
          "write(dagrt_stderr,*) 'failed to allocate dagrt_state%dagrt_refcnt_state_y_and_a_long_name_here_to_force_wrapping_x'",
          "a = b # c", 'x = "it\'s" + y']:
    try:
        toks = shlex.split(s, posix=False)
    except Exception as e:
        print("LEX EXC", repr(s), e); continue
    print(toks)
    w = wpy(s, 2, width=60)
    print("   ->", w)
    try:
        same = ast.dump(ast.parse(s)) == ast.dump(ast.parse("\n".join(w)))
        print("   py ast same:", same)
    except SyntaxError as e:
        print("   py syntax:", e.msg)
class E(Exception): pass
from dagrt.language import *
from dagrt.codegen import PythonCodeGenerator
cb = CodeBuilder("main")
cb.raise_(E, "a fairly long message with several words in it that goes past the eighty column limit for sure yes")
dag = DAGCode.from_phases_list([cb.as_execution_phase("main")], "main")
txt = PythonCodeGenerator(class_name="M")(dag)
i = txt.index("def phase_main"); print(txt[i:i+400])
cls = PythonCodeGenerator(class_name="M").get_class(dag)
m = cls(function_map={}); m.set_up(t_start=0, dt_start=0, context={})
try:
    list(m.run(max_steps=1))
except Exception as e:
    print(repr(e.messagew if hasattr(e, "messagew") else e))
