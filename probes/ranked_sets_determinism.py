import warnings; warnings.simplefilter("ignore")
import builtins, hashlib
_fs = builtins.frozenset; _s = builtins.set
RANK = {"mode": 0}
def key(x):
    s = repr(x)
    return s if RANK["mode"] == 0 else "".join(reversed(s))
class RFS(_fs):
    def __iter__(self):
        return iter(sorted(_fs.__iter__(self), key=key, reverse=RANK["mode"] == 2))
    def _w(self, r): return RFS(r) if isinstance(r, _fs) else r
    def __or__(self, o): return RFS(_fs.__or__(self, o))
    def __ror__(self, o): return RFS(_fs.__or__(self, o))
    def __and__(self, o): return RFS(_fs.__and__(self, o))
    def __rand__(self, o): return RFS(_fs.__and__(self, o))
    def __sub__(self, o): return RFS(_fs.__sub__(self, o))
    def union(self, *o): return RFS(_fs.union(self, *o))
class RS(_s):
    def __iter__(self):
        return iter(sorted(_s.__iter__(self), key=key, reverse=RANK["mode"] == 2))
    def __or__(self, o): return RS(_s.__or__(self, o))
    def __and__(self, o): return RS(_s.__and__(self, o))
    def __sub__(self, o): return RS(_s.__sub__(self, o))
import dagrt.language, dagrt.utils, dagrt.codegen.transform, dagrt.codegen.analysis, dagrt.codegen.fortran, dagrt.data, dagrt.codegen.dag_ast, dagrt.expression
for m in (dagrt.language, dagrt.utils, dagrt.codegen.transform, dagrt.codegen.analysis, dagrt.codegen.fortran, dagrt.data, dagrt.codegen.dag_ast, dagrt.expression):
    m.frozenset = RFS; m.set = RS
import dagrt.codegen.fortran as f
from dagrt.language import *
from dagrt.codegen import PythonCodeGenerator
def gen():
    with CodeBuilder(name="primary") as cb:
        cb("a", "<state>y")
        cb("b", "<state>y")
        cb(("a", "b"), "<func>h(a, b)")
        cb("<state>y", "a + b")
    code = DAGCode.from_phases_list([cb.as_execution_phase("primary")], "primary")
    from dagrt.function_registry import base_function_registry, register_function
    from dagrt.data import UserType
    freg = register_function(base_function_registry, "<func>h", ("a", "b"), result_names=("r1", "r2"), result_kinds=(UserType("y"), UserType("y")))
    freg = freg.register_codegen("<func>h", "fortran", f.CallCode("""
        ${r1} = ${a}
        ${r2} = ${b}
        """))
    cg = f.CodeGenerator("m", function_registry=freg, user_type_map={"y": f.ArrayType((2,), f.BuiltinType("real*8"), index_vars="i")})
    return cg(code), PythonCodeGenerator(class_name="M")(code)
outs = []
for mode in (0, 1, 2):
    RANK["mode"] = mode
    ft, pt = gen()
    outs.append((hashlib.sha256(ft.encode()).hexdigest()[:12], hashlib.sha256(pt.encode()).hexdigest()[:12]))
    open("f%d.f90" % mode, "w").write(ft)
print(outs)
