import warnings; warnings.simplefilter("ignore")
import symx0, z3, time
from symx0 import *
from dagrt.language import *
from dagrt.exec_numpy import NumpyInterpreter
from dagrt.codegen import PythonCodeGenerator
from pymbolic import var
cb = CodeBuilder("main")
with cb.if_("<state>y > 0"):
    with cb.if_("<state>y > 5"):
        cb("<state>y", "<state>y - 5")
    with cb.else_():
        cb("<state>y", "<state>y + 100")
        cb.fail_step()
with cb.else_():
    cb("<state>y", "0 - <state>y")
cb.yield_state("<state>y * 2 + <func>f(<state>y, 3)", "y", var("<t>"), "final")
cb("<t>", "<t> + <dt>")
dag = DAGCode.from_phases_list([cb.as_execution_phase("main")], "main")
cls = PythonCodeGenerator(class_name="M").get_class(dag)
F = z3.Function("f", z3.IntSort(), z3.IntSort(), z3.IntSort())
def f(a, b): return SymInt(F(symx0._lift(a), symx0._lift(b)))
def harness(ex):
    y0 = SymInt(z3.Int("y0")); t0 = SymInt(z3.Int("t0")); dt0 = SymInt(z3.Int("dt0"))
    traces = []
    for mk in (lambda: NumpyInterpreter(dag, function_map={"<func>f": f}), lambda: cls(function_map={"<func>f": f})):
        m = mk(); m.set_up(t_start=t0, dt_start=dt0, context={"y": y0})
        traces.append([tuple(e) for e in m.run(max_steps=2)])
    a, b = traces
    ok = len(a) == len(b)
    if ok:
        for ea, eb in zip(a, b):
            if len(ea) != len(eb): ok = False; break
            for xa, xb in zip(ea, eb):
                if isinstance(xa, SymInt) or isinstance(xb, SymInt):
                    if not ex.valid(symx0._lift(xa) == symx0._lift(xb)): ok = False
                elif xa != xb: ok = False
    return ok, a
ex = Explorer(); symx0.CUR = ex
t = time.time()
res = ex.explore(harness)
print("paths", ex.paths, "queries", ex.queries, "solver_s %.3f total_s %.3f" % (ex.t_solver, time.time()-t))
for trail, (ok, a) in res: print(trail, ok, a[:3])
